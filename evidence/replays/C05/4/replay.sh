#!/bin/sh
cd /verif && bin/check C05 --replay /verif/evidence/replays/C05/4
