#!/bin/sh
cd /verif && bin/check C11 --replay /verif/evidence/replays/C11/16
