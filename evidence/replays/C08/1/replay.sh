#!/bin/sh
cd /verif && bin/check C08 --replay /verif/evidence/replays/C08/1
