#!/bin/sh
cd /verif && bin/check C03 --replay /verif/evidence/replays/C03/1
