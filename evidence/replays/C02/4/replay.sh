#!/bin/sh
cd /verif && bin/check C02 --replay /verif/evidence/replays/C02/4
