#!/bin/sh
cd /verif && bin/check C20 --replay /verif/evidence/replays/C20/2
