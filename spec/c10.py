"""C10 oracle: windows [i*s, i*s+b) containing p."""
import argparse, collections


def windows(p, b, s):
    out = []
    i = -(b // s) - 2
    while i * s <= p:
        if i * s <= p < i * s + b:
            out.append((i * s, i * s + b))
        i += 1
    return out


def make_args(b, s, keep, reflen, **kw):
    d = dict(r1only=False, r2only=False, filterMP=False, minMQ=0, proper_pairs_only=False, no_indels=False,
             max_base_edits=None, no_softclips=False, filterXA=False, dedup=False, doNotDivideFragments=True,
             divideMultimapping=False, bin=b, sliding=s, binTag='DS', byValue=None, splitFeatures=False,
             featureDelimiter=',', keepOverBounds=keep, ref_lengths={'chr1': reflen}, bedfile=None)
    d.update(kw)
    return argparse.Namespace(**d)


def check_assign_binned(mk, assignReads, p, b, s, keep, reflen):
    read = mk(query_name='q', reference_name='chr1', reference_start=max(p, 0), cigartuples=[(0, 10)], seq='ACGTTGCAAG', qual='I' * 10,
              tags={'SM': 'lib_1', 'DS': p})
    table = collections.defaultdict(collections.Counter)
    args = make_args(b, s, keep, reflen)
    assignReads(read, table, args, True, ['DS'], ['SM'])
    exp = {}
    for (st, en) in windows(p, b, s):
        if keep or (st >= 0 and en <= reflen):
            exp[(st, en)] = 1
    got = dict(table[('lib_1',)]) if ('lib_1',) in table else {}
    got = {k: v for k, v in got.items() if v != 0}
    if set(table.keys()) - {('lib_1',)}:
        return 'foreign_sample'
    if got != exp:
        if len(got) > len(exp):
            return 'extra_window'
        if len(got) < len(exp):
            return 'missing_window'
        return 'wrong_window'
    return None


def check_bins_list(coordinate_to_bins, p, b, s):
    got = list(coordinate_to_bins(p, b, s))
    if got != windows(p, b, s):
        return 'bins_list'
    return None
