"""C03 oracle: brute-force nearest-unique assignment."""
import collections, itertools
from singlecellmultiomics.barcodeFileParser.barcodeFileParser import BarcodeParser

ALPHA = 'ACGTN'


def hd(a, b):
    return sum(1 for x, y in zip(a, b) if x != y)


def all_strings(L):
    return [''.join(p) for p in itertools.product(ALPHA, repeat=L)]


def new_parser(k, pending=None):
    """BarcodeParser without scanning the shipped barcode directory"""
    p = BarcodeParser.__new__(BarcodeParser)
    p.hammingDistanceExpansion = k
    p.spaceFill = False
    p.barcodes = collections.defaultdict(dict)
    p.extendedBarcodes = collections.defaultdict(dict)
    p.pending_files = dict(pending or {})
    return p


def oracle(whitelist, k, q):
    """whitelist: list of (barcode, index) in file order (later duplicates overwrite)"""
    idx = {}
    for w, i in whitelist:
        idx[w] = i
    best, cnt, who = None, 0, None
    for w in idx:
        d = hd(w, q)
        if best is None or d < best:
            best, cnt, who = d, 1, w
        elif d == best:
            cnt += 1
    if best is not None and best <= k and cnt == 1:
        return (idx[who], who, best)
    return (None, None, None)


def sphere_clause(hamming_circle, s, n):
    got = collections.Counter(hamming_circle(s, n, 'ACTGN'))
    for t in all_strings(len(s)):
        want = 1 if hd(s, t) == n else 0
        if got.get(t, 0) != want:
            return 'sphere.%s' % ('missing' if got.get(t, 0) < want else 'extra_or_duplicate')
    if set(got) - set(all_strings(len(s))):
        return 'sphere.foreign_string'
    return None


def resolution_clause(whitelist, k, L):
    p = new_parser(k)
    for w, i in whitelist:
        p.addBarcode('wl', barcode=w, index=i)
    if k > 0:
        p.expand(k, alias='wl')
    for q in all_strings(L):
        got = tuple(p.getIndexCorrectedBarcodeAndHammingDistance(alias='wl', barcode=q))
        want = oracle(whitelist, k, q)
        if got != want:
            if want[0] is None:
                return 'assigned_but_%s' % ('tie' if min(hd(w, q) for w, _ in whitelist) <= k else 'too_far')
            if got[0] is None:
                return 'not_assigned'
            if got[1] != want[1]:
                return 'wrong_barcode'
            if got[0] != want[0]:
                return 'wrong_index'
            return 'wrong_distance'
    return None
