"""C09 oracles. Each check builds reads through `mk` (FakeRead for the symbolic run,
a real pysam.AlignedSegment factory for the replay), runs the REAL fragment classes
from /repo and returns None if the property clause holds, else a short clause id."""
from singlecellmultiomics.fragment import NlaIIIFragment, CHICFragment

BODY = 'ACGTTGCAAGTC'   # 12 concrete insert bases (no CATG/ATG at the ends)
BODY_R = 'TGACCTGAACGT'
CONTIG = 'chr1'


def nla_reads(mk, X, c, rev, motif, n_body=12, with_r2=False):
    """Ground truth: the recognised CATG occupies reference [X, X+4). R1 starts (5') on the motif.
    c = number of soft-clipped bases at the read's 5' end."""
    L = 4 + n_body
    if not rev:
        seq = motif + BODY[:n_body]
        cig = ([(4, c)] if c > 0 else []) + [(0, L - c)]
        r1 = mk(query_name='q', reference_name=CONTIG, reference_start=X + c, cigartuples=cig, seq=seq,
                qual='I' * L, is_reverse=False, is_read1=True, is_read2=False,
                tags={'SM': 'lib_1', 'RX': 'ACG', 'MX': 'NLAIII384C8U3'})
    else:
        seq = BODY_R[:n_body] + motif
        cig = [(0, L - c)] + ([(4, c)] if c > 0 else [])
        # reference end (exclusive) of the aligned part is X + 4 - c
        r1 = mk(query_name='q', reference_name=CONTIG, reference_start=X + 4 - c - (L - c), cigartuples=cig, seq=seq,
                qual='I' * L, is_reverse=True, is_read1=True, is_read2=False,
                tags={'SM': 'lib_1', 'RX': 'ACG', 'MX': 'NLAIII384C8U3'})
    r2 = None
    if with_r2:
        if not rev:
            r2 = mk(query_name='q', reference_name=CONTIG, reference_start=X + 30, cigartuples=[(0, 10)],
                    seq='TTGACCAGTA', qual='I' * 10, is_reverse=True, is_read1=False, is_read2=True, is_paired=True,
                    tags={'SM': 'lib_1', 'RX': 'ACG', 'MX': 'NLAIII384C8U3'})
        else:
            r2 = mk(query_name='q', reference_name=CONTIG, reference_start=X + 4 - 40, cigartuples=[(0, 10)],
                    seq='TTGACCAGTA', qual='I' * 10, is_reverse=False, is_read1=False, is_read2=True, is_paired=True,
                    tags={'SM': 'lib_1', 'RX': 'ACG', 'MX': 'NLAIII384C8U3'})
    return r1, r2


def check_nla(mk, X, c, rev, motif, inv, chk, nocig, with_r2=False):
    """L1: motif at the read start decides validity; the site is X whatever the clip."""
    r1, r2 = nla_reads(mk, X, c, rev, motif, with_r2=with_r2)
    f = NlaIIIFragment([r1, r2], invert_strand=inv, check_motif=chk, no_umi_cigar_processing=nocig,
                       allow_cycle_shift=False, umi_hamming_distance=0)
    accept = (motif == 'CATG') or (not chk)
    if accept:
        if not f.is_valid():
            return 'accept.valid'
        if not r1.has_tag('DS'):
            return 'accept.DS_missing'
        if r1.get_tag('DS') != X:
            return 'accept.DS'
        if f.site_location != (CONTIG, X):
            return 'accept.site_location'
        if r1.get_tag('RS') != (rev != inv):
            return 'accept.RS'
        if r1.get_tag('RZ') != motif:
            return 'accept.RZ'
        if f.match_hash is None or f.match_hash[1] != rev or f.match_hash[3] != X:
            return 'accept.match_hash'
        if r2 is not None and (not r2.has_tag('DS') or r2.get_tag('DS') != X):
            return 'accept.R2_DS'
    else:
        if f.is_valid():
            return 'reject.valid'
        if r1.has_tag('DS'):
            return 'reject.DS_present'
        if not r1.has_tag('RR'):
            return 'reject.no_reason'
        if not r1.is_qcfail:
            return 'reject.qcfail'
        if f.match_hash is not None:
            return 'reject.match_hash'
    return None


def check_nla_shift(mk, X, c, rev, allow, first):
    """L2: the read lost its first sequencing cycle (the C of CATG): forward reads start with ATG
    at reference X+1, reverse reads end (reference orientation) with CAT at reference [X, X+3).
    `first` is the base following / preceding the truncated motif (index into ACGT)."""
    fb = 'ACGT'[first]
    L = 3 + 1 + 11
    if not rev:
        seq = 'ATG' + fb + BODY[:11]
        cig = ([(4, c)] if c > 0 else []) + [(0, L - c)]
        r1 = mk(query_name='q', reference_name=CONTIG, reference_start=X + 1 + c, cigartuples=cig, seq=seq,
                qual='I' * L, is_reverse=False, is_read1=True, is_read2=False, tags={'SM': 'lib_1', 'RX': 'ACG'})
    else:
        seq = BODY_R[:11] + fb + 'CAT'
        cig = [(0, L - c)] + ([(4, c)] if c > 0 else [])
        r1 = mk(query_name='q', reference_name=CONTIG, reference_start=X + 3 - c - (L - c), cigartuples=cig, seq=seq,
                qual='I' * L, is_reverse=True, is_read1=True, is_read2=False, tags={'SM': 'lib_1', 'RX': 'ACG'})
    f = NlaIIIFragment([r1, None], allow_cycle_shift=allow, umi_hamming_distance=0)
    if allow:
        if not f.is_valid():
            return 'shift.valid.%s' % ('rev' if rev else 'fwd')
        if not r1.has_tag('DS') or r1.get_tag('DS') != X:
            return 'shift.DS.%s' % ('rev' if rev else 'fwd')
        if r1.get_tag('RS') != rev:
            return 'shift.RS'
    else:
        if f.is_valid():
            return 'noshift.valid'
        if r1.has_tag('DS'):
            return 'noshift.DS_present'
    return None


def check_nla_shift_reject(mk, X, rev, tail):
    """L2b: with allow_cycle_shift a read that carries neither CATG nor the truncated motif at its
    5' end is still rejected. tail = 4 symbolic characters at the 5' end."""
    if not rev:
        seq = tail + BODY
        r1 = mk(query_name='q', reference_name=CONTIG, reference_start=X, cigartuples=[(0, 16)], seq=seq,
                qual='I' * 16, is_reverse=False, is_read1=True, is_read2=False, tags={'SM': 'lib_1', 'RX': 'ACG'})
        has = tail == 'CATG' or tail[:3] == 'ATG'
    else:
        seq = BODY_R + tail
        r1 = mk(query_name='q', reference_name=CONTIG, reference_start=X, cigartuples=[(0, 16)], seq=seq,
                qual='I' * 16, is_reverse=True, is_read1=True, is_read2=False, tags={'SM': 'lib_1', 'RX': 'ACG'})
        has = tail == 'CATG' or tail[1:] == 'CAT'
    f = NlaIIIFragment([r1, None], allow_cycle_shift=True, umi_hamming_distance=0)
    if not has:
        if f.is_valid():
            return 'shift_reject.valid.%s' % ('rev' if rev else 'fwd')
        if r1.has_tag('DS'):
            return 'shift_reject.DS_present'
    return None


def chic_read(mk, start, n, c, rev, trimmed, lig='TA'):
    """A CHIC R1 covering reference [start, start+n) after removing c clipped 5' bases."""
    L = n + c
    seq = ('ACGTTGCAAGTCAGGTCA' * 3)[:L]
    tags = {'SM': 'lib_1', 'RX': 'ACG'}
    if trimmed:
        tags['MX'] = 'scCHIC384C8U3'
        tags['lh'] = lig
    else:
        tags['MX'] = 'NLAIII384C8U3'
    if not rev:
        cig = ([(4, c)] if c > 0 else []) + [(0, n)]
    else:
        cig = [(0, n)] + ([(4, c)] if c > 0 else [])
    return mk(query_name='q', reference_name=CONTIG, reference_start=start, cigartuples=cig, seq=seq, qual='I' * L,
              is_reverse=rev, is_read1=True, is_read2=False, tags=tags)


def check_chic(mk, P, c, rev, trimmed, inv, Lam):
    """L3/L4. Molecule 5' end (first base of R1 *before* clipping) sits at reference P on the read's strand.
    (a) the site does not depend on the clip c; (b) mirror symmetry: the same molecule on the opposite strand of the
    reverse-complemented reference of length Lam has site Lam-1-site and the opposite strand flag."""
    n = 10

    def build(P_, c_, rev_):
        # forward: unclipped read covers [P_, P_+n+c_), aligned part [P_+c_, P_+c_+n)
        # reverse: unclipped read covers [P_-(n+c_)+1, P_+1), aligned part [P_-(n+c_)+1, P_-c_+1)
        if not rev_:
            return chic_read(mk, P_ + c_, n, c_, False, trimmed)
        return chic_read(mk, P_ - (n + c_) + 1, n, c_, True, trimmed)

    r_c = build(P, c, rev)
    r_0 = build(P, 0, rev)
    f_c = CHICFragment([r_c, None], invert_strand=inv, umi_hamming_distance=0)
    f_0 = CHICFragment([r_0, None], invert_strand=inv, umi_hamming_distance=0)
    if not f_c.is_valid() or not f_0.is_valid():
        return 'chic.valid'
    if not r_c.has_tag('DS') or not r_0.has_tag('DS'):
        return 'chic.DS_missing'
    if r_c.get_tag('DS') != r_0.get_tag('DS'):
        return 'chic.clip_dependent.%s' % ('rev' if rev else 'fwd')
    if r_c.get_tag('RS') != (rev != inv):
        return 'chic.RS'
    # expected site: base adjacent to the ligated overhang. Untrimmed reads start with the ligated T (site = base 5' of
    # the read's first base); trimmed reads had T + one more base removed by the demultiplexer (site 2 upstream).
    k = 2 if trimmed else 1
    exp = P - k if not rev else P + k
    if r_c.get_tag('DS') != exp:
        return 'chic.site.%s.%s' % ('trimmed' if trimmed else 'untrimmed', 'rev' if rev else 'fwd')
    # mirror
    Pm = Lam - 1 - P
    r_m = build(Pm, c, not rev)
    f_m = CHICFragment([r_m, None], invert_strand=inv, umi_hamming_distance=0)
    if not f_m.is_valid():
        return 'chic.mirror.valid'
    if r_m.get_tag('DS') != Lam - 1 - r_c.get_tag('DS'):
        return 'chic.mirror.site'
    if r_m.get_tag('RS') == r_c.get_tag('RS'):
        return 'chic.mirror.strand'
    return None


def check_chic_orientation(mk, P, rev, r2rev, r2unmapped):
    """L3c: mates pointing the same way are rejected, not assigned a site."""
    r1 = chic_read(mk, P, 10, 0, rev, True)
    r2 = mk(query_name='q', reference_name=CONTIG, reference_start=P + 5, cigartuples=[(0, 10)], seq='TTGACCAGTA',
            qual='I' * 10, is_reverse=r2rev, is_read1=False, is_read2=True, is_paired=True, is_unmapped=r2unmapped,
            tags={'SM': 'lib_1', 'RX': 'ACG', 'MX': 'scCHIC384C8U3'})
    f = CHICFragment([r1, r2], umi_hamming_distance=0)
    bad = (not r2unmapped) and (rev == r2rev)
    if bad:
        if f.is_valid():
            return 'chic.orientation.valid'
        if r1.has_tag('DS'):
            return 'chic.orientation.DS_present'
    else:
        if not f.is_valid() or not r1.has_tag('DS'):
            return 'chic.orientation.rejected_good'
    return None


def check_nla_mirror(mk, X, c, rev, Lam):
    """L4 (NLA): mirroring the read onto the other strand of the reverse-complemented reference maps the
    site X to Lam-4-X and flips RS; equal match hashes stay equal."""
    r_a, _ = nla_reads(mk, X, c, rev, 'CATG')
    r_b, _ = nla_reads(mk, Lam - 4 - X, c, not rev, 'CATG')
    fa = NlaIIIFragment([r_a, None], umi_hamming_distance=0)
    fb = NlaIIIFragment([r_b, None], umi_hamming_distance=0)
    if not fa.is_valid() or not fb.is_valid():
        return 'nla.mirror.valid'
    if r_b.get_tag('DS') != Lam - 4 - r_a.get_tag('DS'):
        return 'nla.mirror.site'
    if r_b.get_tag('RS') == r_a.get_tag('RS'):
        return 'nla.mirror.strand'
    return None


class _Fetched:
    """What WindowFasta.fetch returns: the code under test calls .upper() on it. CrossHair cannot keep str.upper symbolic (and
    per-character constraints on the window make the string theory queries time out), so for a symbolic window upper() is
    modelled as the identity. That is exact for every window without lower-case characters - the claim of L5 is restricted to
    those; windows with lower-case (soft-masked) motif letters are covered concretely by L5b, where the real str.upper runs."""

    def __init__(self, s, identity_upper):
        self.s = s
        self.identity_upper = identity_upper

    def upper(self):
        if not self.identity_upper:
            return self.s.upper()
        return self.s


class WindowFasta:
    """Reference stand-in for the no_overhang scan: every base is 'A' except the `width` bases starting at `base`,
    which are `window` (symbolic). fetch follows the pysam.FastaFile contract used by the code (negative start raises)."""
    PAD = 16

    def __init__(self, base, window, identity_upper=False):
        self.identity_upper = identity_upper
        self.base = base
        self.window = window
        self.padded = 'A' * self.PAD + window + 'A' * self.PAD
        self.fetches = []

    def fetch(self, reference=None, start=None, end=None):
        if reference != CONTIG:
            raise KeyError(reference)
        if start < 0:
            raise ValueError('start out of range (%i)' % start)
        if start > end:
            raise ValueError('invalid coordinates')
        lo, hi = start - self.base + self.PAD, end - self.base + self.PAD
        if lo < 0 or hi > len(self.padded):
            raise AssertionError('harness: fetch outside the modelled window')
        self.fetches.append((start, end))
        return _Fetched(self.padded[lo:hi], self.identity_upper)


def _is_catg(w):
    """reference letters may be soft-masked (lower case): CATG in any ASCII case"""
    return len(w) == 4 and w[0] in 'Cc' and w[1] in 'Aa' and w[2] in 'Tt' and w[3] in 'Gg'


def check_nla_no_overhang(mk, mkref, S, rev, window, case_free=False):
    """L5 (no_overhang=True: the CATG was digested away and is looked up in the reference next to the read).
    forward read: aligned start S, the 7 reference bases [S-7, S) are `window`; reverse read: aligned end S
    (exclusive), the 7 reference bases [S, S+7) are `window`. Ground truth: the site is the reference coordinate of the
    CATG occurrence of the window that is closest to the read; no occurrence -> rejected, no site."""
    n = 12
    if not rev:
        r1 = mk(query_name='q', reference_name=CONTIG, reference_start=S, cigartuples=[(0, n)], seq=BODY[:n], qual='I' * n,
                is_reverse=False, is_read1=True, is_read2=False, tags={'SM': 'lib_1', 'RX': 'ACG'})
        ref = mkref(S - 7, window)
        occ = [j for j in (3, 2, 1, 0) if S - 7 + j >= 0 and (window[j:j + 4] == 'CATG' if case_free else _is_catg(window[j:j + 4]))]   # bases before the contig start do not exist
        exp = (S - 7 + occ[0]) if occ else None
    else:
        r1 = mk(query_name='q', reference_name=CONTIG, reference_start=S - n, cigartuples=[(0, n)], seq=BODY_R[:n], qual='I' * n,
                is_reverse=True, is_read1=True, is_read2=False, tags={'SM': 'lib_1', 'RX': 'ACG'})
        ref = mkref(S, window)
        occ = [j for j in (0, 1, 2, 3) if (window[j:j + 4] == 'CATG' if case_free else _is_catg(window[j:j + 4]))]
        exp = (S + occ[0]) if occ else None
    try:
        f = NlaIIIFragment([r1, None], no_overhang=True, reference=ref, umi_hamming_distance=0)
    except Exception as e:
        return 'no_overhang.raises.%s' % type(e).__name__
    if exp is not None:
        if not f.is_valid():
            return 'no_overhang.valid.%s' % ('rev' if rev else 'fwd')
        if not r1.has_tag('DS') or r1.get_tag('DS') != exp:
            return 'no_overhang.DS.%s' % ('rev' if rev else 'fwd')
        if f.site_location != (CONTIG, exp):
            return 'no_overhang.site_location'
        if r1.get_tag('RS') != rev:
            return 'no_overhang.RS'
        if f.match_hash is None or f.match_hash[3] != exp:
            return 'no_overhang.match_hash'
    else:
        if f.is_valid():
            return 'no_overhang.reject.valid'
        if r1.has_tag('DS'):
            return 'no_overhang.reject.DS_present'
        if not r1.is_qcfail:
            return 'no_overhang.reject.qcfail'
    return None
