"""C20: crash-point model of the tagging pipelines. Every stubbed environment operation is a *step*;
step number kappa fails (exception flavour: an Exception is raised so handlers / context managers run; kill flavour:
the world is snapshotted at the step and nothing after it counts)."""
import os as _os

OK = 'Reached end. All ok!\n'


class Crash(Exception):
    pass


class Kill(BaseException):
    pass


EXC = [Crash, ValueError, KeyError, OSError, RuntimeError, IndexError]


class World:
    def __init__(self, kappa, kill, etype=0):
        self.kappa, self.kill, self.etype = kappa, kill, etype
        self.nstep = 0
        self.trace = []
        self.files = {}          # path -> dict(records=[...], sorted=bool, closed=bool)
        self.status = {}         # status path -> content
        self.snapshot = None
        self.crashed_at = None

    def step(self, name):
        i = self.nstep
        self.nstep += 1
        self.trace.append(name)
        if self.kappa is not None and i == self.kappa:
            self.crashed_at = name
            if self.kill:
                self.snapshot = (dict(self.status), {k: dict(v) for k, v in self.files.items()})
                raise Kill()
            for k in range(len(EXC)):
                if self.etype == k:
                    raise EXC[k]('injected failure at step %d (%s)' % (i, name))
            raise Crash('injected')

    def final(self):
        if self.snapshot is not None:
            return self.snapshot
        return self.status, self.files


class _Header:
    def __init__(self, d):
        self.d = d

    def as_dict(self):
        return {'HD': {'VN': '1.6'}, 'SQ': [{'SN': 'chr1', 'LN': 1000}], 'PG': []}

    def copy(self):
        return self


class FakeAlignmentFile:
    def __init__(self, world, path, mode='rb', header=None, **kw):
        self.w, self.path, self.mode = world, path, mode
        self.header = _Header(header)
        if 'w' in mode:
            world.step('open_output')
            world.files[path] = dict(records=[], sorted=False, closed=False, rg=False)
        else:
            world.step('open_input')

    def write(self, rec):
        self.w.step('write')
        self.w.files[self.path]['records'].append(rec)

    def close(self):
        self.w.step('close')
        if 'w' in self.mode:
            self.w.files[self.path]['closed'] = True

    def __enter__(self):
        return self

    def __exit__(self, *a):
        if 'w' in self.mode:
            self.close()


class FakePysam:
    """module-level stand-in for `pysam` inside bamFunctions / bamtagmultiome"""
    def __init__(self, world):
        self.w = world

        class AS:  # pysam.AlignedSegment (isinstance checks only)
            pass
        self.AlignedSegment = AS

    def AlignmentFile(self, path, mode='rb', header=None, **kw):
        return FakeAlignmentFile(self.w, path, mode, header, **kw)

    def sort(self, *args):
        self.w.step('sort')
        args = list(args)
        out = args[args.index('-o') + 1]
        src = [a for a in args if a.endswith('.unsorted')][0]
        f = self.w.files[src]
        self.w.files[out] = dict(records=list(f['records']), sorted=True, closed=f['closed'], rg=f['rg'])

    def index(self, path, *a):
        self.w.step('index')
        self.w.files[path + '.bai'] = dict(records=[], sorted=True, closed=True, rg=True)


class FakeOS:
    """os for bamFunctions: only what sorted_bam_file/sort_and_index touch"""
    def __init__(self, world):
        self.w = world
        self.path = self

    def exists(self, p):
        return True

    def dirname(self, p):
        return _os.path.dirname(p)

    def abspath(self, p):
        return p

    def makedirs(self, *a, **k):
        pass

    def remove(self, p):
        self.w.step('remove_unsorted')
        self.w.files.pop(p, None)

    def rename(self, a, b):
        self.w.step('rename')
        self.w.files[b] = self.w.files.pop(a)


class Mol:
    def __init__(self, world, i):
        self.w, self.i = world, i

    def set_meta(self, k, v):
        pass

    def get_a_reference_id(self):
        return 'r%d' % self.i

    def write_tags(self):
        self.w.step('tag')

    def __iter__(self):
        return iter([self])

    def get_read_group(self, with_attr=False):
        return ('rg', {'ID': 'rg'}) if with_attr else 'rg'

    def write_pysam(self, out, **kw):
        out.write('rec%d' % self.i)


def molecule_iterator_factory(world, n):
    def molecule_iterator(alignments, **kw):
        if kw.get('contig') == '*':
            return
        for i in range(n):
            world.step('iterate')
            yield Mol(world, i)
        world.step('iterate_end')
    return molecule_iterator


def status_open_factory(world):
    class H:
        def __init__(self, p):
            self.p = p
            self.buf = ''

        def write(self, s):
            self.buf += s

        def __enter__(self):
            return self

        def __exit__(self, *a):
            world.status[self.p] = self.buf

    def _open(p, mode='r'):
        return H(p)
    return _open


def judge(world, out_path, n, escaped, complete_needs_rg=True):
    status, files = world.final()
    st = status.get(out_path.replace('.bam', '.status.txt'))
    ok = (st == OK)
    f = files.get(out_path)
    complete = (f is not None and f['sorted'] and f['closed'] and (out_path + '.bai') in files
                and f['records'] == ['rec%d' % i for i in range(n)] and (f['rg'] or not complete_needs_rg))
    # the run FAILED iff the pipeline call did not return normally (an injected fault that the pipeline
    # absorbs, e.g. a sort attempt that is retried elsewhere, is not a failure)
    if ok and not complete:
        return 'ok_status_incomplete_output@%s' % (world.crashed_at,)
    if escaped and ok:
        return 'ok_status_after_failure@%s' % (world.crashed_at,)
    if not escaped and not ok:
        return 'no_ok_status_after_clean_run@%s' % (world.crashed_at,)
    return None
