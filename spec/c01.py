"""C01 oracle: the loader loop conserves read pairs (accounting over the four sinks)."""
from singlecellmultiomics.fastqProcessing.fastqIterator import FastqRecord
from spec.layouts import LAYOUTS

HDRS = [
    '@NS500414:455:HYLVHBGX5:3:13601:9882:%d %d:N:0:CGTACT',       # Illumina, 11 fields with ACGT index
    '@NS500414:455:HYLVHBGX5:3:13601:9882:%d',                      # short 7 field header
    '@Is:NS500414;RN:455;Fc:HYLVHBGX5;La:3;Ti:13601;CX:9882;CY:%d;Fi:N;CN:0;aa:CGTACT;aA:CGTACT;aI:1',   # already demultiplexed
]
_F1, _F2 = 'ACGTTGCAAGCTTACATGACGTTGCAAGTCAGGTCATTGACTTGACC', 'GATTACAGATTACAGGCATGCATTAGGACCA'
# content classes of a pair: full / both shorter than the prefix / both empty / N-rich / full mate 1 with an empty mate 2 / full mate 1 with a mate 2 as long as a random primer
R1S = [_F1, 'ACGTTGCAAG', '', 'NNNNNNNNNNNNNNNNNNNNNNNNACGT', _F1, _F1]
R2S = [_F2, 'GATTACAG', '', 'NNNNNNNNNNNNNNGATTACA', '', 'GATTAC']
QUAL = 'FFFFFFFFFFFFFFFFIIIIIIIIIIIIIIIIIIIIIIIIIIIIIIIIIIIIIIIIIIIIIIII'


def make_pair(i, hdr_style, ci, nm):
    cy = 17000 + i
    h = HDRS[hdr_style]
    out = []
    for m in range(nm):
        seq = (R1S if m == 0 else R2S)[ci]
        header = (h % (cy, m + 1)) if hdr_style == 0 else (h % cy)
        out.append(FastqRecord(header, seq, '+', QUAL[:len(seq)]))
    return tuple(out)


def parse_sink(text):
    """-> list of (header, seq, plus, qual) or raises ValueError when the sink is not a well-formed FASTQ stream"""
    if text == '':
        return []
    if not text.endswith('\n'):
        raise ValueError('no trailing newline')
    lines = text[:-1].split('\n')
    if len(lines) % 4:
        raise ValueError('line count %d' % len(lines))
    recs = []
    for k in range(0, len(lines), 4):
        if not lines[k].startswith('@') or lines[k + 2] != '+':
            raise ValueError('record %d malformed' % (k // 4))
        recs.append((lines[k], lines[k + 1], lines[k + 2], lines[k + 3]))
    return recs


def cy_of(header):
    for i in range(17000, 17004):
        if str(i) in header:
            return i
    return None


def accounting_clause(result, sinks, pairs, nm, rejects, max_pairs, strat_name, predicted=None):
    """result = (processedReadPairs, strategyYields). sinks: dict name -> text for demux.R1/.R2, rej.R1/.R2.
    predicted: list of expected sinks per consumed pair ('demux' / 'rej') or None."""
    processed, yields = result
    n = len(pairs)
    consumed = n if max_pairs is None else min(n, max_pairs)
    if processed != consumed:
        return 'processed_count'
    try:
        d = [parse_sink(sinks['demux.R%d' % (m + 1)]) for m in range(nm)]
        r = [parse_sink(sinks['rej.R%d' % (m + 1)]) for m in range(nm)] if rejects else [[] for m in range(nm)]
    except ValueError as e:
        return 'malformed_sink'
    if any(len(x) != len(d[0]) for x in d):
        return 'demux_mates_out_of_sync'
    if any(len(x) != len(r[0]) for x in r):
        return 'reject_mates_out_of_sync'
    # mates on the same index
    for sink in (d, r):
        for k in range(len(sink[0])):
            ids = set(cy_of(sink[m][k][0]) for m in range(nm))
            if len(ids) != 1 or None in ids:
                return 'mates_not_on_same_index'
    d_ids = [cy_of(x[0]) for x in d[0]]
    r_ids = [cy_of(x[0]) for x in r[0]]
    want = [17000 + i for i in range(consumed)]
    for i in want:
        c = d_ids.count(i) + r_ids.count(i)
        if c > 1:
            return 'pair_written_twice'
        if c == 0 and rejects:
            return 'pair_lost'
    for ids in (d_ids, r_ids):
        if ids != sorted(ids):
            return 'order_not_preserved'
        if any(i not in want for i in ids):
            return 'unconsumed_pair_written'
    if yields.get(strat_name, 0) != len(d_ids):
        return 'yield_counter'
    # rejected records keep their bases / qualities and carry a reason
    for m in range(nm):
        for rec in r[m]:
            i = cy_of(rec[0]) - 17000
            if 'RR:' not in rec[0]:
                return 'reject_without_reason'
            if rec[1] != pairs[i][m].sequence or rec[3] != pairs[i][m].qual:
                return 'reject_bases_changed'
    if predicted is not None:
        for i in range(consumed):
            where = 'demux' if (17000 + i) in d_ids else ('rej' if (17000 + i) in r_ids else 'none')
            exp = predicted[i]
            if exp == 'rej' and not rejects:
                exp = 'none'
            if where != exp:
                return 'wrong_sink.%s_expected_%s' % (where, exp)
    return None
