"""C18 oracle: which samples carry `base` at an informative single-nucleotide site."""
ALLELES = ['A', 'C', 'G', 'T', 'AT', None]


def site_answer(rec, select, phased, ignore, base):
    """rec = (ref, alts tuple, {sample: (a1, a2)}). Returns the set of samples or None."""
    ref, alts, gts = rec
    if not phased:
        als = (ref,) + tuple(alts)
        if not all(len(a) == 1 for a in als):
            return None
        b2s = {}
        for name, a in zip('UVWXYZ', als):
            b2s.setdefault(a, set()).add(name)
    else:
        b2s, multi, missing, assigned = {}, False, False, set()
        for s, al in gts.items():
            if select is not None and s not in select:
                continue
            for a in al:
                if a is None:
                    missing = True
                elif len(a) == 1:
                    b2s.setdefault(a, set()).add(s)
                    assigned.add(s)
                else:
                    multi = True
        if not b2s:
            return None
        if multi:
            return None     # not a single-nucleotide site, whatever else the record holds
        if missing:
            pass            # a missing genotype makes the site usable with the bases that were seen (pinned behaviour, see DESIGN C18)
        else:
            if select is not None and len(assigned) != len(select):
                return None
            if len(b2s) < 2:
                return None
    if ignore is not None and any((ref, b) in ignore for b in b2s):
        return None
    return b2s.get(base)
