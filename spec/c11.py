"""C11 oracle, written from the property statement and the option help texts (NOT from bamToCountTable.py)."""
import argparse, collections

# every shape spans 10 reference bases
CIGARS = [[(0, 10)], [(4, 2), (0, 10)], [(0, 4), (1, 1), (0, 6)], [(0, 4), (2, 1), (0, 5)], [(0, 10), (4, 2)]]
XAS = [None, 'chr2,+100,10M,0;', 'chr2_alt,+100,10M,0;', 'chr2_alt,+100,10M,0;chr3,-5,10M,1;', ';']
MPS = [None, 'unique', 'multi']


def has(cig, ops):
    return any(op in ops for op, l in cig)


def alt_hit_to_primary_assembly(xa):
    if xa is None:
        return False
    for ent in xa.split(';'):
        if ent == '':
            continue
        if not ent.split(',')[0].endswith('_alt'):
            return True
    return False


def passes(r, o, blacklist):
    """r: dict of read properties; o: dict of options"""
    if r['unmapped'] or r['qcfail']:
        return False
    if r['mapq'] < o['minMQ']:
        return False
    if o['dedup'] and (r['duplicate'] or r['RR'] is not None):
        return False
    if o['r1only'] and r['read2']:
        return False
    if o['r2only'] and r['read1']:
        return False
    if o['proper_pairs_only'] and not r['proper']:
        return False
    if o['no_indels'] and has(r['cigar'], (1, 2)):
        return False
    if o['no_softclips'] and has(r['cigar'], (4,)):
        return False
    if o['max_base_edits'] is not None and r['NM'] is not None and r['NM'] > o['max_base_edits']:
        return False
    if o['filterXA'] and alt_hit_to_primary_assembly(r['XA']):
        return False
    if o['filterMP'] and r['mp'] != 'unique':
        return False
    if blacklist is not None:
        for (s, e) in blacklist:
            if r['start'] < e and r['end'] > s:      # the read [start, end) overlaps the blacklisted half-open interval [s, e)
                return False
    return True


def weight(r, o):
    if o['r1only'] or o['r2only'] or o['doNotDivideFragments']:
        w = 1
    else:
        w = 0.5 if (r['paired'] and not r['mate_unmapped']) else 1
    if o['divideMultimapping']:
        if r['XA'] is not None:
            w = w / (len([e for e in r['XA'].split(';') if e != '']) + 1)
        elif r['NH'] is not None:
            w = w / r['NH']
    return w


def make_read(mk, r):
    tags = {'SM': r.get('SM', 'lib_1')}
    for k in ('RR', 'NM', 'XA', 'mp', 'NH', 'DS', 'GN', 'vl', 'bi', 'BI'):
        if r.get(k) is not None:
            tags[k] = r[k]
    qlen = sum(l for op, l in r['cigar'] if op in (0, 1, 4))
    return mk(query_name='q', reference_name='chr1', reference_start=r['start'], cigartuples=r['cigar'], seq='A' * qlen, qual='I' * qlen,
              is_read1=r['read1'], is_read2=r['read2'], is_paired=r['paired'], is_proper_pair=r['proper'], is_unmapped=r['unmapped'],
              mate_is_unmapped=r['mate_unmapped'], is_qcfail=r['qcfail'], is_duplicate=r['duplicate'], mapping_quality=r['mapq'], tags=tags)


def make_args(o, **kw):
    d = dict(r1only=o['r1only'], r2only=o['r2only'], filterMP=o['filterMP'], minMQ=o['minMQ'], proper_pairs_only=o['proper_pairs_only'],
             no_indels=o['no_indels'], max_base_edits=o['max_base_edits'], no_softclips=o['no_softclips'], filterXA=o['filterXA'], dedup=o['dedup'],
             doNotDivideFragments=o.get('doNotDivideFragments', True), divideMultimapping=o.get('divideMultimapping', False), bin=None, sliding=None,
             binTag='DS', byValue=None, splitFeatures=False, featureDelimiter=',', keepOverBounds=False, ref_lengths={'chr1': 1000}, bedfile=None)
    d.update(kw)
    return argparse.Namespace(**d)


def ref_end(r):
    return r['start'] + sum(l for op, l in r['cigar'] if op in (0, 2, 3))


# ---- fork-free formulation of `passes` for the symbolic run: only & | == on (symbolic) booleans, no short-circuit
def neg(x):
    return x == False   # noqa: E712  (keeps symbolic booleans symbolic)


def implies(a, b):
    return neg(a) | b


def passes_sym(v, o):
    """v: dict of (symbolic) read facts: unmapped qcfail mapq duplicate has_RR read1 read2 proper has_indel has_soft nm_present nm
    xa_hits_primary mp_unique start end ; o: options incl. bl (bool) bs be"""
    ok = neg(v['unmapped']) & neg(v['qcfail']) & (v['mapq'] >= o['minMQ'])
    ok = ok & implies(o['dedup'], neg(v['duplicate']) & neg(v['has_RR']))
    ok = ok & implies(o['r1only'], neg(v['read2'])) & implies(o['r2only'], neg(v['read1']))
    ok = ok & implies(o['proper_pairs_only'], v['proper'])
    ok = ok & implies(o['no_indels'], neg(v['has_indel'])) & implies(o['no_softclips'], neg(v['has_soft']))
    ok = ok & implies(o['mbe_set'] & v['nm_present'], v['nm'] <= o['mbe'])
    ok = ok & implies(o['filterXA'], neg(v['xa_hits_primary']))
    ok = ok & implies(o['filterMP'], v['mp_unique'])
    overlaps = (v['start'] < o['be']) & (v['end'] > o['bs'])      # read [start, end) against the blacklisted interval [bs, be)
    if o.get('decoy') is not None:
        overlaps = overlaps | ((v['start'] < o['decoy'][1]) & (v['end'] > o['decoy'][0]))
    ok = ok & implies(o['bl'], neg(overlaps))
    return ok
