"""C16 oracle: closed-interval containment / overlap on the current feature set. Features are (start, end, name, strand, data)
with pairwise distinct concrete names, so results are compared as sorted name lists (duplicates visible)."""
STRANDS = ['+', '-', None]


def at(features, x, strand):
    return sorted(f[2] for f in features if f[0] <= x <= f[1] and (strand is None or f[3] == strand))


def between(features, a, b, strand):
    return sorted(f[2] for f in features if (a if a > f[0] else f[0]) <= (b if b < f[1] else f[1]) and (strand is None or f[3] == strand))


def names(res):
    return sorted(r[2] for r in res)
