"""C02 oracle: protocol layouts, written from the protocol descriptions (NOT read from the strategy sources).
Per strategy short name:
  mates   : allowed numbers of mates
  umi, bc : ordered segments (mate, start, length) whose concatenation is the UMI / raw barcode
  rp      : (mate, start, length) random primer -> rS tag            | None
  lig     : (mate, start, length) ligation motif -> lh / lq tags      | None
  extra   : {tag: (mate, start, length)} further recorded segments
  insert  : per mate, offset where the emitted stretch starts
  content : True when the amount emitted depends on the read content (poly-T pruning, oligo clipping, bleed-through trimming);
            then the emitted stretch only has to be a contiguous, index-aligned substring starting at/after `insert`.
"""
import string

U3C8 = dict(umi=[(0, 0, 3)], bc=[(0, 3, 8)])
LAYOUTS = {
    'ILLU': dict(mates=(1, 2), umi=[], bc=[], rp=None, lig=None, insert=(0, 0), bulk=True),
    'CS1C8U4': dict(mates=(2,), bc=[(0, 0, 8)], umi=[(0, 8, 4)], rp=(1, 0, 6), lig=None, insert=(12, 6)),
    'CS2C8U6': dict(mates=(2,), umi=[(0, 0, 6)], bc=[(0, 6, 8)], rp=(1, 0, 6), lig=None, insert=(14, 6)),
    'CS2C8U6NH': dict(mates=(1, 2), umi=[(0, 0, 6)], bc=[(0, 6, 8)], rp=None, lig=None, insert=(14, 0)),
    # swapped-mate layout: UMI + barcode on mate 2, random primer on mate 1 (as CS2C8U6S)
    'CS2C8U8S': dict(mates=(2,), umi=[(1, 0, 8)], bc=[(1, 8, 8)], rp=(0, 0, 6), lig=None, insert=(6, 16)),
    'CS2C8U8NNLA': dict(mates=(2,), umi=[(0, 0, 8)], bc=[(0, 8, 8)], rp=(1, 0, 6), lig=None, insert=(16, 6)),
    'CS2C8U6S': dict(mates=(2,), umi=[(1, 0, 6)], bc=[(1, 6, 8)], rp=(0, 0, 6), lig=None, insert=(6, 14)),
    'NLAIII384C8U3': dict(mates=(2,), rp=(1, 0, 6), lig=None, insert=(11, 6), **U3C8),
    'NLAIII96C8U3': dict(mates=(2,), rp=(1, 0, 6), lig=None, insert=(11, 6), **U3C8),
    'RBSN': dict(mates=(2,), umi=[(0, 0, 8)], bc=[(0, 8, 8)], rp=None, lig=None, insert=(34, 0),
                 extra={'ES': (0, 16, 3), 'IS': (0, 19, 15)}, extra_qual={'eq': (0, 16, 3), 'QT': (0, 8, 8)}),
    'NLAIII384C8U3SE': dict(mates=(1,), rp=None, lig=None, insert=(11, 0), **U3C8),
    'NLAIII96C8U3SE': dict(mates=(1,), rp=None, lig=None, insert=(11, 0), **U3C8),
    # scCHIC: 3 nt UMI, 8 nt barcode, ligated T (not emitted) ; the two bases after the barcode are recorded as ligation motif
    'scCHIC384C8U3': dict(mates=(2,), rp=(1, 0, 6), lig=(0, 11, 2), insert=(12, 6), **U3C8),
    'scCHIC384C8U3l': dict(mates=(2,), rp=None, lig=(0, 11, 2), insert=(12, 0), **U3C8),
    'scCHIC384C8U3se': dict(mates=(1,), rp=None, lig=(0, 11, 2), insert=(12,), **U3C8),
    'TCHIC': dict(mates=(2,), rp=None, lig=(0, 11, 2), insert=(12, 0), content=True, **U3C8),
    'CHICTV': dict(mates=(2,), rp=None, lig=(0, 11, 2), insert=(12, 0), content=True, mx='CTV', **U3C8),
    'MSPJIC8U3': dict(mates=(1, 2), rp=None, lig=None, insert=(11, 0), **U3C8),
    'SCARC8R2': dict(mates=(2,), umi=[], bc=[(1, 0, 8)], rp=None, lig=None, insert=(0, 8)),
    'SCARC8R1': dict(mates=(1, 2), umi=[], bc=[(0, 0, 8)], rp=None, lig=None, insert=(8, 0)),
    'SCARC8R2R4': dict(mates=(2,), umi=[], bc=[(1, 0, 8)], rp=(0, 0, 4), lig=None, insert=(4, 8)),
    'CHROMC16U12': dict(mates=(1, 2), bc=[(0, 0, 16)], umi=[(0, 16, 12)], rp=None, lig=None, insert=(28, 0)),
    # DamID2: 3 nt UMI, 10 nt barcode ending in CA; the read is emitted from the last barcode base on (GATC context)
    'DamID2': dict(mates=(1, 2), umi=[(0, 0, 3)], bc=[(0, 3, 10)], rp=None, lig=(0, 11, 2), insert=(12, 0)),
    'DamID2_8bp_noCA': dict(mates=(1, 2), umi=[(0, 0, 3)], bc=[(0, 3, 8)], rp=None, lig=(0, 11, 2), insert=(10, 0)),
    'DamID2_3u4b3u6b': dict(mates=(1, 2), umi=[(0, 0, 3), (0, 7, 3)], bc=[(0, 3, 4), (0, 10, 4)], rp=None, lig=(0, 14, 2), insert=(14, 0)),
    # mixed DamID / transcriptome strategies: which sub-layout applies depends on the barcode verdicts; poly-T pruning
    'DamAndT': dict(mates=(2,), content=True, alt=['DamID2c', 'CS2C8U6tx'], insert=(12, 0)),
    'DamID2andT_3u4b3u4b': dict(mates=(2,), content=True, alt=['SCA4'], insert=(14, 0)),
    'DamID2andT_3u4b3u6b': dict(mates=(2,), content=True, alt=['SCA6', 'SCA4'], insert=(14, 0)),
}
_SCAU = [(0, 0, 3), (0, 7, 3)]
SUB = {
    'DamID2c': dict(umi=[(0, 0, 3)], bc=[(0, 3, 10)], rp=None, lig=(0, 11, 2), insert=(12, 0), content=True, mx='DamID2'),
    'CS2C8U6tx': dict(umi=[(0, 0, 6)], bc=[(0, 6, 8)], rp=(1, 0, 6), lig=None, insert=(14, 6), content=True, mx='CS2C8U6'),
    'SCA4': dict(umi=_SCAU, bc=[(0, 3, 4), (0, 10, 4)], rp=None, lig=(0, 14, 2), insert=(14, 0), content=True, mx='DamID2_3u4b3u6b'),
    'SCA6': dict(umi=_SCAU, bc=[(0, 3, 4), (0, 10, 6)], rp=None, lig=(0, 16, 2), insert=(14, 0), content=True, mx='DamID2_3u4b3u6b'),
}
TOP = chr(33 + len(string.ascii_letters) - 1)


def seg(recs, s, qual=False):
    m, a, l = s
    if m >= len(recs):
        return ''
    src = recs[m].qual if qual else recs[m].sequence
    return src[a:a + l]


def cat(recs, segs, qual=False):
    return ''.join(seg(recs, s, qual) for s in segs)


def sat(q):
    """what the header-safe codec preserves of a quality string"""
    return ''.join(min(c, TOP) for c in q)


def table_tiling():
    """static sanity of the table: segments before `insert` tile the prefix of each mate (overlap with the emitted stretch allowed)"""
    bad = []
    for name, L in LAYOUTS.items():
        if L.get('content') and 'umi' not in L:
            continue
        for m, ins in enumerate(L['insert']):
            cov = set()
            for s in L['umi'] + L['bc'] + ([L['rp']] if L.get('rp') else []) + ([L['lig']] if L.get('lig') else []) + list(L.get('extra', {}).values()):
                if s[0] == m:
                    cov.update(range(s[1], s[1] + s[2]))
            if not set(range(ins)) <= cov:
                bad.append((name, m, sorted(set(range(ins)) - cov)))
    return bad


def layout_clause(strat, recs, decode, accept_expected=True):
    """Run the REAL strategy on recs (list of FastqRecord) and compare with the layout table. Returns None or clause id."""
    name = strat.shortName
    L = LAYOUTS[name]
    out = strat.demultiplex(recs, library='LIB')
    if not isinstance(out, (list, tuple)) or len(out) != len(recs):
        return 'shape'
    if L.get('bulk'):
        # bulk demultiplexer returns formatted records; only structure is checked
        return None
    if 'alt' in L:
        first = None
        for a in L['alt']:
            c = _check_with(SUB[a], SUB[a]['mx'], out, recs, decode)
            if c is None:
                return None
            first = first or c
        return 'alt.' + first
    return _check_with(L, name, out, recs, decode)


def corrected(raw):
    """what the C02 stub parser returns as corrected barcode: differs from the raw bases in the first position"""
    return ('N' + raw[1:]) if raw else raw


def _check_with(L, name, out, recs, decode):
    for m, tr in enumerate(out):
        t = tr.tags
        if t.get('MX') != L.get('mx', name):
            return 'MX'
        if L['bc'] and t.get('bc') != cat(recs, L['bc']):
            return 'bc'
        if L['bc'] and t.get('BC') != corrected(cat(recs, L['bc'])):
            return 'BC'
        if L['umi']:
            if t.get('RX') != cat(recs, L['umi']):
                return 'RX'
            if 'RQ' not in t or decode(t['RQ']) != sat(cat(recs, L['umi'], True)):
                return 'RQ'
        elif 'RX' in t:
            return 'RX_invented'
        if L.get('rp'):
            if t.get('rS') != seg(recs, L['rp']):
                return 'rS'
        elif 'rS' in t:
            return 'rS_invented'
        if L.get('lig'):
            if t.get('lh') != seg(recs, L['lig']):
                return 'lh'
            if 'lq' not in t or decode(t['lq']) != sat(seg(recs, L['lig'], True)):
                return 'lq'
        for tag, s in L.get('extra', {}).items():
            if t.get(tag) != seg(recs, s):
                return tag
        for tag, s in L.get('extra_qual', {}).items():
            if tag not in t or decode(t[tag]) != sat(seg(recs, s, True)):
                return tag
        ins = L['insert'][m]
        if L.get('content'):
            n = len(tr.sequence)
            if len(tr.qualities) != n:
                return 'emitted_misaligned'
            ok = False
            k = ins
            while k + n <= len(recs[m].sequence):
                if recs[m].sequence[k:k + n] == tr.sequence and recs[m].qual[k:k + n] == tr.qualities:
                    ok = True
                    break
                k += 1
            if n == 0:
                ok = True
            if not ok:
                return 'emitted_not_substring.m%d' % m
        else:
            if tr.sequence != recs[m].sequence[ins:]:
                return 'emitted_sequence.m%d' % m
            if tr.qualities != recs[m].qual[ins:]:
                return 'emitted_qualities.m%d' % m
    return None
