"""C07 oracles shared by harness (symbolic) and replay (concrete).
The MoleculeIterator API takes arbitrary fragment/molecule classes; the ejection step is driven through
that public API with minimal classes whose can_be_yielded() verdict is an input."""
from singlecellmultiomics.molecule.iterator import MoleculeIterator

HASHES = [('s', 'h0'), ('s', 'h1')]


class Tok:
    def __init__(self, idx, flag, h):
        self.idx, self.flag, self.h = idx, flag, h
        self.reference_name = 'chr1'
        self.mapping_quality = 60


class SFrag:
    def __init__(self, reads, **kw):
        self.tok = reads[0]
        self.match_hash = HASHES[self.tok.h]

    def is_valid(self):
        return True

    def get_span(self):
        return ('chr1', 0, 1000 + self.tok.idx)


class SMol:
    def __init__(self, fragment, **kw):
        self.fragments = [fragment]
        self.idx = fragment.tok.idx
        self.flag = fragment.tok.flag
        self.finalised = 0

    def add_fragment(self, fragment, use_hash=True):
        return False

    def can_be_yielded(self, chrom, pos):
        return self.flag

    def __len__(self):
        return len(self.fragments)

    def __finalise__(self):
        self.finalised += 1


class Source:
    def __init__(self, toks):
        self.toks, self.consumed, self.exhausted = toks, 0, False

    def __iter__(self):
        for t in self.toks:
            self.consumed += 1
            yield [t, None]
        self.exhausted = True


def check_eject_step(n, flags, hs, pooling, cee):
    """Returns None or a clause id. flags[i]: verdict of can_be_yielded for molecule i (fixed over time);
    every fragment founds its own molecule; cee = check_eject_every (None = never)."""
    toks = [Tok(i, flags[i], hs[i] if pooling == 1 else 0) for i in range(n)]
    src = Source(toks)
    it = MoleculeIterator(src, molecule_class=SMol, fragment_class=SFrag, check_eject_every=cee,
                          perform_qflag=False, pooling_method=pooling)
    emitted = []  # (idx, consumed at emission, exhausted)
    try:
        for m in it:
            emitted.append((m.idx, src.consumed, src.exhausted, m.finalised))
    except Exception:
        # the iterator aborted (e.g. IndexError in the pop arithmetic): the remaining fragments are never emitted
        return 'iterator_raised'
    idxs = [e[0] for e in emitted]
    if sorted(idxs) != list(range(n)):
        return 'each_once'
    for idx, consumed, exhausted, fin in emitted:
        if fin != 1:
            return 'finalise_once'
        if not exhausted and not flags[idx]:
            return 'emitted_while_open'
        # expected emission time
        exp = None
        if cee is not None and flags[idx]:
            t = idx
            while t < n:
                if (t + 1) % (cee + 1) == 0:
                    exp = t + 1
                    break
                t += 1
        if exp is None:
            if not exhausted:
                return 'emitted_early'
        else:
            if exhausted or consumed != exp:
                return 'not_ejected_at_check'
    if it.waiting_fragments != 0 and False:
        return 'counters'
    return None


def margin_ok(can_be_yielded, S, E, c, fs, fe, gs, ge, site_m, site_g):
    """L2: sorted input (gs >= fs), molecule span [S,E] with its site within 6 of the span, short fragments
    (< c/2 - 13): if the molecule is declared ejectable at position fe, fragment G cannot have the same site."""
    class M:
        pass
    m = M()
    m.chromosome, m.spanStart, m.spanEnd, m.cache_size = 'chr1', S, E, c
    if can_be_yielded(m, 'chr1', fe):
        if site_g == site_m:
            return False
    if not can_be_yielded(m, 'chr2', fe):
        return False
    if can_be_yielded(m, None, fe):
        return False
    return True


class SpanFrag:
    """minimal fragment for the REAL Molecule._add_fragment: only the span matters"""
    def __init__(self, start, end, umi='ACG'):
        self.span = ('chr1', start, end)
        self.match_hash = ('h',)
        self.strand = False
        self.umi = umi
        self.umi_hamming_distance = 0
        self.sample = 'cell'
        self.dup = False

    def get_span(self):
        return self.span

    def set_duplicate(self, v):
        self.dup = v


def span_growth_clause(Molecule, spans, c, probes):
    """Real Molecule: after every added fragment, can_be_yielded(chrom, P) must reflect the CURRENT span."""
    m = Molecule(cache_size=c)
    S = E = None
    for i, (s, e) in enumerate(spans):
        m._add_fragment(SpanFrag(s, e))
        S = s if S is None or s < S else S
        E = e if E is None or e > E else E
        for P in probes:
            want = (2 * P < 2 * S - c) or (2 * P > 2 * E + c)
            if bool(m.can_be_yielded('chr1', P)) != want:
                return 'stale_or_wrong_window.after_fragment_%d' % i
    return None
