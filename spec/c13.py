"""C13 oracle: strict-plurality vote per reference position; one call per fragment."""
from singlecellmultiomics.fragment import Fragment
from singlecellmultiomics.molecule import Molecule

B5 = 'ACGTN'


def best_call(calls):
    """independent statement: the call with the strictly highest quality; tie between different bases at the top -> N"""
    real = [c for c in calls if c is not None]
    if not real:
        return ('N', 0)
    top = max(c[1] for c in real)
    bases = set(c[0] for c in real if c[1] == top)
    if len(bases) != 1:
        return ('N', 0)
    return (list(bases)[0], top)


def vote(calls):
    """calls: list of bases (one per fragment, None = fragment does not cover the position) -> winning base or None"""
    cnt = {}
    for b in calls:
        if b is None or b == 'N':
            continue
        cnt[b] = cnt.get(b, 0) + 1
    if not cnt:
        return None
    top = max(cnt.values())
    winners = [b for b, n in cnt.items() if n == top]
    return winners[0] if len(winners) == 1 else None


def single_read_fragment(mk, start, seq, quals, name='q', rev=False, cigartuples=None):
    n = len(seq)
    r = mk(query_name=name, reference_name='chr1', reference_start=start, cigartuples=(cigartuples or [(0, n)]), seq=seq, qual=''.join(chr(33 + q) for q in quals),
           is_reverse=rev, is_read1=True, is_read2=False, tags={'SM': 'lib_1', 'RX': 'ACG'})
    return Fragment([r, None], umi_hamming_distance=0)


def paired_fragment(mk, s1, seq1, q1, s2, seq2, q2, r1_rev=False):
    a = mk(query_name='q', reference_name='chr1', reference_start=s1, cigartuples=[(0, len(seq1))], seq=seq1, qual=''.join(chr(33 + q) for q in q1),
           is_reverse=r1_rev, is_read1=True, is_read2=False, is_paired=True, tags={'SM': 'lib_1', 'RX': 'ACG'})
    b = mk(query_name='q', reference_name='chr1', reference_start=s2, cigartuples=[(0, len(seq2))], seq=seq2, qual=''.join(chr(33 + q) for q in q2),
           is_reverse=not r1_rev, is_read1=False, is_read2=True, is_paired=True, tags={'SM': 'lib_1', 'RX': 'ACG'})
    return Fragment([a, b], umi_hamming_distance=0)


def molecule_of(frags):
    m = Molecule()
    for f in frags:
        m._add_fragment(f)
    return m


def consensus_clause(frags, columns, start, **kw):
    """columns[p] = list of the base each fragment shows at reference position start+p (None if not covering)"""
    m = molecule_of(frags)
    got = m.get_consensus(**kw)
    for p, col in enumerate(columns):
        want = vote(col)
        key = ('chr1', start + p)
        if want is None:
            if key in got:
                return 'tie_or_N_reported'
        else:
            if key not in got:
                return 'majority_missing'
            if got[key] != want:
                return 'wrong_base'
    if any(k not in [('chr1', start + p) for p in range(len(columns))] for k in got):
        return 'foreign_position'
    return None
