"""C15 oracle: consensus pseudo-reads are well formed."""
import re

REF = 'ACgtTGcaAGTCAGGTCATTGACC'      # soft-masked (lower-case) stretches as in real genome FASTA files
REFU = REF.upper()


def covered(reads):
    s = set()
    for r in reads:
        for (a, b) in r.get_blocks():
            s.update(range(a, b))
    return sorted(s)


def runs(positions):
    out = []
    for p in positions:
        if out and out[-1][1] == p - 1:
            out[-1][1] = p
        else:
            out.append([p, p])
    return [tuple(x) for x in out]


def md_decode(md, query):
    """reference bases implied by an MD string and the query bases (no deletions)"""
    ref, i = [], 0
    for tok in re.findall(r'\d+|[A-Za-z]', md):
        if tok.isdigit():
            n = int(tok)
            ref.extend(query[i:i + n])
            i += n
        else:
            ref.append(tok)
            i += 1
    return ''.join(ref), i


def record_clause(rec, ref, calls, max_N_span, cov_runs):
    """rec: a produced record exposing reference_start, cigartuples, query_sequence, query_qualities, tags"""
    cig = rec.cigartuples
    m = sum(l for op, l in cig if op == 0)
    if len(rec.query_sequence) != m:
        return 'sequence_length'
    if rec.query_qualities is None or len(rec.query_qualities) != m:
        return 'quality_length'
    if cig[0][0] != 0 or cig[-1][0] != 0:
        return 'cigar_shape'
    # aligned blocks + bases
    pos, q, blocks, ref_aligned = rec.reference_start, 0, [], ''
    for op, l in cig:
        if op == 0:
            blocks.append((pos, pos + l - 1))
            for k in range(l):
                want = calls.get(pos + k)
                if want is not None and rec.query_sequence[q + k] != want:
                    return 'base_call'
            ref_aligned += ref[pos:pos + l]
            pos += l
            q += l
        elif op == 3:
            if max_N_span is not None and l > max_N_span:
                return 'gap_not_split'
            pos += l
        else:
            return 'cigar_op'
    for b in blocks:
        if b not in cov_runs:
            return 'block_not_a_coverage_run'
    md = rec.get_tag('MD')
    if not re.fullmatch(r'[0-9]+([A-Z][0-9]+)*|([0-9]*[A-Z])+[0-9]*', md):
        return 'MD_format'
    dec, used = md_decode(md, rec.query_sequence)
    if used != m or dec != ref_aligned.upper():
        return 'MD'
    if sum(1 for ch in md if ch.isalpha()) != sum(1 for a, b in zip(rec.query_sequence.upper(), ref_aligned.upper()) if a != b):
        return 'MD_spurious_mismatch'
    return None, blocks
