"""C17 oracle: exact partition + contained fetch windows."""


def check_tiling(blacklisted_binning, st, L, bin_size, bl, F):
    """bl: list of (a,b) half-open blacklisted intervals (any order/overlap). F: fragment size or None."""
    en = st + L
    out = list(blacklisted_binning(st, en, bin_size, blacklist=list(bl), fragment_size=F))

    def black(x):
        for a, b in bl:
            if a <= x < b:
                return True
        return False
    bins = []
    for t in out:
        if F is None:
            if len(t) != 2:
                return 'shape'
            s, e = t
        else:
            if len(t) != 4:
                return 'shape'
            s, e, fs, fe = t
            if not (fs <= s and e <= fe):
                return 'window_not_containing_bin'
            if s - fs > F or fe - e > F:
                return 'window_exceeds_fragment_size'
            if fs < st or fe > en:
                return 'window_outside_region'
            x = fs
            while x < fe:
                if black(x):
                    return 'window_into_blacklist'
                x += 1
        if not (s < e):
            return 'empty_bin'
        if e - s > bin_size:
            return 'bin_too_large'
        if s < st or e > en:
            return 'bin_outside_region'
        bins.append((s, e))
    x = st
    while x < en:
        n = 0
        for s, e in bins:
            if s <= x < e:
                n += 1
        if black(x):
            if n != 0:
                return 'bin_touches_blacklist'
        else:
            if n == 0:
                return 'gap'
            if n > 1:
                return 'overlap'
        x += 1
    return None


def check_fill_range(fill_range, start, span, step):
    end = start + span
    got = list(fill_range(start, end, step))
    cur = start
    for s, e in got:
        if s != cur or not (s < e) or e - s > step or e > end:
            return 'fill_range'
        cur = e
    if cur != end:
        return 'fill_range_incomplete'
    return None


def check_bp_chunked(bp_chunked, sizes, bp_per_job):
    jobs = []
    pos = 0
    for z in sizes:
        jobs.append(('chr1', pos, pos + z))
        pos += z
    chunks = list(bp_chunked(iter(jobs), bp_per_job))
    flat = [j for c in chunks for j in c]
    if flat != jobs:
        return 'bp_chunked_concat'
    for c in chunks[:-1]:
        if sum(e - s for _, s, e in c) < bp_per_job:
            return 'bp_chunked_small_chunk'
        if sum(e - s for _, s, e in c[:-1]) >= bp_per_job:
            return 'bp_chunked_large_chunk'
    return None
