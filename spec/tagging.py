"""Oracles for the tagging driver (C05, C08): job construction, tiling ownership, run_tagging_task."""


# ---------- job construction (contig-per-process mode)
def check_contig_jobs(block, contigs, restrict=None):
    """block(get_contigs_with_reads, input_bam_path, contig_whitelist, contig_restricted) -> job_gen.
    contigs: list of (name, length) as idxstats yields. restrict: name given with -contig (None: everything, incl. the unmapped bin)."""
    def gcwr(path, with_length=False):
        for c, l in contigs:
            yield (c, l) if with_length else c
    whitelist = [restrict] if restrict is not None else [c for c, l in contigs]
    job_gen = block(gcwr, 'in.bam', whitelist, restrict is not None)
    seen = {}
    for job in job_gen:
        if len(job) == 0:
            return 'empty_job'
        for task in job:
            if len(task) != 5 or task[1] is not None or task[2] is not None or task[3] is not None or task[4] is not None:
                return 'task_shape'
            seen[task[0]] = seen.get(task[0], 0) + 1
    if restrict is None:
        want = set(c for c, l in contigs) | {'*'}
    else:
        # exactly what the serial pass does with -contig: that contig only, no unmapped bin
        want = set(c for c, l in contigs if c == restrict and c != '*')
    for c in want:
        n = seen.get(c, 0)
        if n == 0:
            return 'contig_dropped' if c != '*' else 'unmapped_dropped'
        if n > 1:
            return 'contig_twice' if c != '*' else 'unmapped_twice'
    for c in seen:
        if c not in want:
            return 'foreign_contig' if restrict is None else 'contig_outside_selection'
    return None


# ---------- region tiling mode
def check_region_jobs(block, contig_sizes, bin_size, bp_per_job, F, whitelist):
    """block(...) -> job_gen for region mode (E3 cut of the else branch)."""
    job_gen = block(contig_sizes, bin_size, F, bp_per_job, whitelist)
    stars = 0
    tasks = []
    for job in job_gen:
        for t in job:
            if t[0] == '*':
                stars += 1
                continue
            if len(t) != 5:
                return 'task_shape'
            tasks.append(t)
    if stars != 1:
        return 'unmapped_jobs_%d' % stars
    for name, L in contig_sizes:
        mine = [t for t in tasks if t[0] == name]
        if whitelist is not None and name not in whitelist:
            if mine:
                return 'non_whitelisted_contig_tiled'
            continue
        x = 0
        while x < L:
            n = 0
            for (_, s, e, fs, fe) in mine:
                if s <= x < e:
                    n += 1
            if n != 1:
                return 'position_owned_%d_times' % (0 if n == 0 else 2)
            x += 1
        for (_, s, e, fs, fe) in mine:
            if not (fs <= s and e <= fe):
                return 'fetch_window_not_containing_bin'
            if s < 0 or e > L:
                return 'bin_outside_contig'
            if fs < 0:
                return 'negative_fetch_start'
    return None


def check_fetch_complete(blacklisted_binning, L, b, F, site, rs, re):
    """C08-L4: the task owning `site` fetches every read [rs,re) of a fragment lying within F of the site."""
    owner = None
    for (s, e, fs, fe) in blacklisted_binning(0, L, b, blacklist=[], fragment_size=F):
        if s <= site < e:
            if owner is not None:
                return 'two_owners'
            owner = (s, e, fs, fe)
    if owner is None:
        return 'no_owner'
    s, e, fs, fe = owner
    if not (rs < fe and re > fs):
        return 'read_outside_fetch_window'
    return None


# ---------- run_tagging_task
class SFrag:
    def __init__(self, site, rg):
        self.site, self.rg = site, rg

    def get_site_location(self):
        return self.site

    def get_read_group(self, with_attr_dict=False):
        if with_attr_dict:
            return self.rg, {'ID': self.rg, 'SM': 'cell'}
        return self.rg


class SMol:
    def __init__(self, idx, site, rg, log):
        self.idx, self.frags, self.log = idx, [SFrag(site, rg)], log

    def __iter__(self):
        return iter(self.frags)

    def set_meta(self, k, v):
        self.log.append((self.idx, 'set_meta', k))

    def write_tags(self):
        self.log.append((self.idx, 'write_tags', None))

    def write_pysam(self, out, **kw):
        self.log.append((self.idx, 'write_pysam', None))
        out.append(self.idx)

    valid = True

    def is_valid(self):
        return self.valid


def make_iter_class(mols, record):
    class It:
        def __init__(self, alignments, **kw):
            record.update(kw)

        def __iter__(self):
            return iter(mols)
    return It


CONTIGS = ['c0', 'c1']


def check_tagging_task(run_tagging_task, specs, region):
    """specs: list of (contig_idx or None, site) in iteration order. region: None or (start, end, fetch_start, fetch_end) on c0."""
    log, out, rgs, rec = [], [], {}, {}
    mols = []
    for i, (ci, site) in enumerate(specs):
        loc = None if ci is None else (CONTIGS[ci], site)
        mols.append(SMol(i, loc, 'rg%d' % (i % 2), log))
    It = make_iter_class(mols, rec)
    if region is None:
        r = run_tagging_task(object(), out, molecule_iterator_class=It, molecule_iterator_args={}, read_groups=rgs)
        exp = list(range(len(specs)))
    else:
        start, end, fs, fe = region
        r = run_tagging_task(object(), out, contig='c0', start=start, end=end, fetch_start=fs, fetch_end=fe,
                             molecule_iterator_class=It, molecule_iterator_args={}, read_groups=rgs)
        exp = []
        for i, (ci, site) in enumerate(specs):
            if ci is None:
                continue
            # ownership only: molecules are not guaranteed to arrive in site order (soft clips, reverse reads), so no early stop
            if ci == 0 and start <= site < end:
                exp.append(i)
        if rec.get('contig') != 'c0' or rec.get('start') != fs or rec.get('end') != fe:
            return 'iterator_region_args'
    if out != exp:
        if any(out.count(i) > 1 for i in out):
            return 'written_twice'
        if any(i not in exp for i in out):
            return 'foreign_molecule_written'
        return 'owned_molecule_lost'
    if r.get('total_molecules_written') != len(exp):
        return 'statistics'
    for i in exp:
        if ('rg%d' % (i % 2)) not in rgs:
            return 'read_group_missing'
        steps = [s for (j, s, k) in log if j == i]
        if steps != ['set_meta', 'write_tags', 'write_pysam']:
            return 'write_order'
    return None


def check_tagging_job(TG, counts, valids):
    """REAL run_tagging_tasks (job = list of tasks) + real run_tagging_task, environment stubbed.
    counts[i] = number of molecules task i yields; valids = validity flag per molecule (rejects are written too by default)."""
    import contextlib
    out, removed, created = [], [], []

    class AF:
        def __init__(self, path, *a, **k):
            pass

        def __enter__(self):
            return self

        def __exit__(self, *a):
            return False

    @contextlib.contextmanager
    def sorted_bam_file(path, **kw):
        created.append(path)
        yield out
    saved = (TG.AlignmentFile, TG.sorted_bam_file, TG.remove, TG.os)

    class P:
        @staticmethod
        def exists(p):
            return False

    class OS:
        path = P
    TG.AlignmentFile, TG.sorted_bam_file, TG.remove, TG.os = AF, sorted_bam_file, (lambda p: removed.append(p)), OS
    try:
        tasks = []
        k = 0
        for c in counts:
            mols = []
            for j in range(c):
                m = SMol(k, ('c0', 5), 'rg', [])
                m.valid = valids[k]
                mols.append(m)
                k += 1
            tasks.append({'molecule_iterator_class': make_iter_class(mols, {}), 'molecule_iterator_args': {}})
        path, meta = TG.run_tagging_tasks((('in.bam', 'tmp', None), tasks))
    finally:
        TG.AlignmentFile, TG.sorted_bam_file, TG.remove, TG.os = saved
    written = k
    if out != list(range(written)):
        return 'job_records'
    if written > 0:
        if path is None or path != created[0]:
            return 'job_output_discarded'
        if any(r == path or r == path + '.bai' for r in removed):
            return 'job_output_removed'
    else:
        if path is not None:
            return 'empty_job_kept'
    if meta.get('total_molecules') != written:
        return 'job_total'
    return None


# ---------- get_contigs_with_reads
def check_contigs_with_reads(n, ms, us, su, with_length):
    """the real get_contigs_with_reads over the text `samtools idxstats` prints (contig, length, #mapped, #unmapped-but-placed; last
    line '*'): every contig that holds ANY record - also one with only unmapped, placed records - must be listed, in file order.
    ms / us / su: indices into the count pool [0, 1, 7]."""
    import types
    from vlib.sym import pick
    import singlecellmultiomics.bamProcessing.bamFunctions as BFm
    C = [0, 1, 7]
    rows = [('chrA', 5000, pick(C, ms[0]), pick(C, us[0])), ('chrB', 200000, pick(C, ms[1]), pick(C, us[1])), ('chrC', 31, pick(C, ms[2]), pick(C, us[2]))][:n]
    star_unmapped = pick(C, su)
    text = ''.join('%s\t%d\t%d\t%d\n' % r for r in rows) + '*\t0\t0\t%d\n' % star_unmapped
    real = BFm.pysam
    BFm.pysam = types.SimpleNamespace(idxstats=lambda path: text)
    try:
        got = list(BFm.get_contigs_with_reads('in.bam', with_length))
    finally:
        BFm.pysam = real
    want = [((r[0], r[1]) if with_length else r[0]) for r in rows if r[2] > 0 or r[3] > 0]
    if star_unmapped > 0:
        want.append(('*', 0) if with_length else '*')
    return None if got == want else 'contig_list'
