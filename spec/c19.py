"""C19 oracle, shared by the symbolic harness (MemFS) and the replay (real gzip files under RLIMIT_NOFILE)."""
PATHS = ['cellA', 'cellB', 'cellC']


def run_writes(make_limiter, writes, method, prefix='', keep_going=False, errors=None):
    """Drive the REAL HandleLimiter. Returns (expected: dict path->str, exception or None, index of failing write)."""
    hl = make_limiter()
    expected = {}
    exc = None
    failed_at = None
    for i, w in enumerate(writes):
        p = prefix + PATHS[w]
        s = '@r%d\n' % i
        try:
            hl.write(p, s, method=method)
        except Exception as e:  # noqa
            exc = e
            failed_at = i
            if errors is not None:
                errors.append((i, e))
            if keep_going:      # the caller survives the error and goes on writing (the failed record is legitimately lost)
                continue
            break
        expected[p] = expected.get(p, '') + s
    try:
        hl.close()
    except Exception as e:  # noqa
        if exc is None:
            exc = e
            failed_at = len(writes)
    return hl, expected, exc, failed_at
