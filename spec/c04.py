"""C04 oracle: what the demultiplexer encodes into a read name is what the tagger decodes from it."""
import string
from vlib.sym import pick
from singlecellmultiomics.fastqProcessing.fastqIterator import FastqRecord
import singlecellmultiomics.modularDemultiplexer.baseDemultiplexMethods as BDM
from stubs.stubparser import StubBarcodeParser

ILLU = 'NS500414:455:HYLVHBGX5:3:13601:9882:17671'
INS1, INS2 = 'CATGACGTTGCAAG', 'TTGACCAGTAGGCT'


def codec_clause(q):
    """L1: encode is total and decode(encode(q)) saturates at the last header-safe letter."""
    enc = BDM.phredToFastqHeaderSafeQualities(q, method=3)
    if len(enc) != len(q):
        return 'codec.length'
    for ch in enc:
        if not (('a' <= ch <= 'z') or ('A' <= ch <= 'Z')):
            return 'codec.alphabet'
    dec = BDM.fastqHeaderSafeQualitiesToPhred(enc, method=3)
    top = 33 + len(string.ascii_letters) - 1
    for a, b in zip(q, dec):
        if ord(b) != min(ord(a), top):
            return 'codec.roundtrip'
    return None


def roundtrip_clause(mk, Flagger, Strategy, umi, umiq, bc, lib, idxseq, bi):
    """real strategy -> TaggedRecord.asFastq -> read name -> QueryNameFlagger.digest -> BAM tags"""
    ulen, blen = len(umi), len(bc)
    r1 = FastqRecord('@%s 1:N:0:%s' % (ILLU, idxseq), umi + bc + INS1, '+', umiq + 'F' * blen + 'I' * len(INS1))
    r2 = FastqRecord('@%s 2:N:0:%s' % (ILLU, idxseq), INS2, '+', 'I' * len(INS2))
    parser = StubBarcodeParser(index=bi)
    strat = Strategy(barcodeFileParser=parser, indexFileParser=parser, indexFileAlias='idx')
    trs = strat.demultiplex([r1, r2], library=lib)
    out = []
    for mate, tr in enumerate(trs):
        fq = tr.asFastq()
        lines = fq.split('\n')
        header = lines[0]
        if not header.startswith('@') or ' ' in header or '\t' in header:
            return 'header_shape'
        read = mk(query_name=header[1:], reference_name='chr1', reference_start=100, cigartuples=[(0, len(lines[1]))],
                  seq=lines[1], qual=lines[3], is_read1=(mate == 0), is_read2=(mate == 1), is_paired=True)
        Flagger().digest([read])
        if read.query_name != ILLU:
            return 'query_name'
        want = {'BC': bc, 'bc': bc, 'RX': umi, 'LY': lib, 'MX': strat.shortName, 'aa': idxseq, 'aA': idxseq,
                'SM': '%s_%s' % (lib, bi), 'MI': bc + umi + idxseq, 'Fc': 'HYLVHBGX5', 'La': '3'}
        for k, v in want.items():
            if not read.has_tag(k):
                return 'missing.' + k
            if read.get_tag(k) != v:
                return 'value.' + k
        if str(read.get_tag('bi')) != str(bi):
            return 'value.bi'
        top = chr(33 + len(string.ascii_letters) - 1)
        if read.get_tag('RQ') != ''.join(min(c, top) for c in umiq):
            return 'value.RQ'
        if read.has_tag('RP'):
            return 'RP_written'
        if read.has_tag('BK'):
            return 'marked_bulk'
    return None


MAX_STORABLE = 254   # BAM stores l_read_name as uint8 *including* the terminating NUL: htslib / pysam refuse names > 254


def length_guard_clause(n, store=None):
    """L3: a header that cannot be stored as a BAM read name (longer than 254 characters) is refused (ValueError),
    otherwise the library name is kept in full. `store` (replay): callable that stores the name in a real
    pysam.AlignedSegment and returns what was stored."""
    tr = BDM.TaggedRecord(BDM.TagDefinitions)
    lib = 'x' * n
    tr.tags.update({'Is': 'NS500414', 'RN': '455', 'LY': lib, 'RX': 'ACG'})
    tr.sequence, tr.qualities, tr.plus = 'ACGT', 'IIII', '+'
    hlen = len('Is:NS500414;RN:455;LY:;RX:ACG') + n
    try:
        fq = tr.asFastq()
    except ValueError:
        return None if hlen > MAX_STORABLE else 'guard.refused_short_header'
    if hlen > MAX_STORABLE:
        return 'guard.long_header_accepted'
    if ('LY:' + lib + ';') not in fq:
        return 'guard.library_truncated'
    if store is not None:
        name = fq.split('\n')[0][1:]
        try:
            if store(name) != name:
                return 'guard.stored_name_differs'
        except Exception:
            return 'guard.accepted_header_not_storable'
    return None


FIELDS = ['RX', 'BC', 'bc', 'LY', 'MX', 'aA', 'rS']
import itertools as _it
POOL = [''.join(p) for n in (1, 2) for p in _it.product('aZ0-_', repeat=n)] + ['N', 'ACGTNACGTN', 'x' * 40, 'ATCACG+CGTGAT']      # last: a dual sequencing index as the shipped index files list them
BIS = [0, 1, 17, 384, 99999]
RQS = ['abZ', 'aaa', 'ZZZ', 'AzB']


def field_roundtrip_clause(mk, Flagger, field, v, bi, rq):
    """L2: a TaggedRecord carrying the tag set of a demultiplexed record (insertion order of the real pipeline), one field
    symbolic -> asFastq -> read name -> QueryNameFlagger.digest -> tags."""
    tags = {'Is': 'NS500414', 'RN': '455', 'Fc': 'HYLVHBGX5', 'La': '3', 'Ti': '13601', 'CX': '9882', 'CY': '17671', 'RP': '1',
            'Fi': 'N', 'CN': '0', 'aa': 'CGTACT', 'aA': 'CGTACT', 'aI': 1, 'LY': 'LIBa', 'RX': 'ACG', 'RQ': rq, 'bi': bi,
            'bc': 'ACGTACGT', 'MX': 'NLAIII384C8U3', 'BC': 'ACGTACGT', 'rS': 'TTGACC'}
    name = pick(FIELDS, field)
    tags[name] = v
    if name == 'aA':
        tags['aa'] = v
    tr = BDM.TaggedRecord(BDM.TagDefinitions)
    tr.tags.update(tags)
    tr.sequence, tr.qualities, tr.plus = 'CATGACGT', 'IIIIIIII', '+'
    header = tr.asFastq().split('\n')[0]
    read = mk(query_name=header[1:], reference_name='chr1', reference_start=100, cigartuples=[(0, 8)], seq='CATGACGT', qual='IIIIIIII')
    Flagger().digest([read])
    if read.query_name != ILLU:
        return 'query_name'
    want = dict(tags)
    del want['RP']
    want['SM'] = '%s_%s' % (tags['LY'], bi)
    want['MI'] = tags['BC'] + tags['RX'] + tags['aA']
    want['RQ'] = BDM.fastqHeaderSafeQualitiesToPhred(rq)
    for k, val in want.items():
        if not read.has_tag(k):
            return 'missing.' + k
        if str(read.get_tag(k)) != str(val):
            return 'value.' + k
    if read.has_tag('RP'):
        return 'RP_written'
    if read.has_tag('BK'):
        return 'marked_bulk'
    return None


def pipeline_clause(mk, Flagger, Strategy, ui, qi, li, ii, bi):
    """L4: real strategy end to end with values drawn from concrete pools (selected by symbolic indices)."""
    umis = ['ACG', 'NNN', 'TTA']
    quals = ['FFF', '!#I', 'TSA']
    libs = ['LIBa', 'My-lib_2', 'x']
    idxs = ['CGTACT', 'N', '12']
    ulen = Strategy.__name__.count('u6') * 6 or 3
    umi, q = (pick(umis, ui) * 2)[:ulen], (pick(quals, qi) * 2)[:ulen]
    return roundtrip_clause(mk, Flagger, Strategy, umi, q, 'ACGTACGT', pick(libs, li), pick(idxs, ii), pick(BIS, bi))


NAMES2 = [
    # (read name as written by the demultiplexer, expected presence of UMI tags)
    ('Is:NS500414;RN:455;Fc:HYLVHBGX5;La:3;Ti:13601;CX:9882;CY:17671;Fi:N;CN:0;aa:CGTACT;aA:CGTACT;aI:1;LY:LIBa;RX:ACGTTG;RQ:abcdef;bi:3;bc:ACGTACGT;MX:CS2C8U6;BC:ACGTACGT', True),
    ('Is:NS500414;RN:455;Fc:HYLVHBGX5;La:3;Ti:13601;CX:9883;CY:17672;Fi:N;CN:0;aa:CGTACT;aA:CGTACT;aI:1;LY:LIBb;bi:9;bc:TTGACCAA;MX:SCARC8R1;BC:TTGACCAA', False),
    ('Is:NS500414;RN:455;Fc:HYLVHBGX5;La:3;Ti:13601;CX:9884;CY:17673;Fi:N;CN:0;aa:CGTACT;aA:CGTACT;aI:1;LY:LIBc', False),   # bulk read: no cell index
]


def flagger_sequence_clause(mk, Flagger, order):
    """one QueryNameFlagger instance decodes several reads in sequence: every read must decode exactly as it does alone"""
    def tagsof(read):
        return dict(read.get_tags()) if hasattr(read, 'get_tags') else dict(read.tags)
    alone = []
    for i in order:
        r = mk(query_name=NAMES2[i][0], reference_name='chr1', reference_start=100, cigartuples=[(0, 8)], seq='CATGACGT', qual='IIIIIIII')
        Flagger().digest([r])
        alone.append((r.query_name, tagsof(r)))
    fl = Flagger()
    for k, i in enumerate(order):
        r = mk(query_name=NAMES2[i][0], reference_name='chr1', reference_start=100, cigartuples=[(0, 8)], seq='CATGACGT', qual='IIIIIIII')
        fl.digest([r])
        if (r.query_name, tagsof(r)) != alone[k]:
            return 'state_leaks_between_reads.pos%d' % k
        t = tagsof(r)
        if NAMES2[i][1] != ('RX' in t):
            return 'umi_presence'
    return None
