"""C06 oracles: ground-truth duplicate structure."""
from spec.c09 import nla_reads, chic_read, CONTIG
from singlecellmultiomics.fragment import NlaIIIFragment, CHICFragment, Fragment
from singlecellmultiomics.utils.sequtils import hamming_distance as hd_N   # the package's distance: N matches anything

SAMPLES = ['lib_1', 'lib_2']
CONTIGS = ['chr1', 'chr2']


def umi_close(ua, ub, d):
    if ua == ub:
        return True
    if d == 0:
        return False
    if len(ua) != len(ub):
        return False
    return hd_N(ua, ub) <= d


def nla_frag(mk, site, rev, clip, sample, umi, d, name='q', dup=False, contig=CONTIG):
    r1, _ = nla_reads(mk, site, clip, rev, 'CATG')
    r1.reference_name = contig
    r1.set_tag('SM', sample)
    r1.set_tag('RX', umi)
    r1.query_name = name
    r1.is_duplicate = dup
    return NlaIIIFragment([r1, None], umi_hamming_distance=d)


def chic_frag(mk, P, rev, clip, sample, umi, d, radius, contig=CONTIG):
    # molecule 5' end at P (see spec/c09.check_chic)
    n = 10
    r = chic_read(mk, P + clip, n, clip, False, True) if not rev else chic_read(mk, P - (n + clip) + 1, n, clip, True, True)
    r.set_tag('SM', sample)
    r.set_tag('RX', umi)
    r.reference_name = contig
    return CHICFragment([r, None], umi_hamming_distance=d, assignment_radius=radius)


def plain_frag(mk, start, length, rev, sample, umi, d, radius, contig=CONTIG):
    r = mk(query_name='q', reference_name=contig, reference_start=start, cigartuples=[(0, length)], seq='A' * 1, qual='I' * 1,
           is_reverse=rev, is_read1=True, tags={'SM': sample, 'RX': umi})
    return Fragment([r, None], umi_hamming_distance=d, assignment_radius=radius)


def pair_clause(a, b, expected):
    ab = (a == b)
    ba = (b == a)
    if ab != ba:
        return 'asymmetric'
    if ab != expected:
        return 'equal_but_distinct' if ab else 'distinct_but_equal'
    return None
