"""C05-L3 oracle: MoleculeIterator conserves fragments (stub classes through the public API)."""
from singlecellmultiomics.molecule.iterator import MoleculeIterator

KEYS = [('k', 0), ('k', 1)]


class Tok:
    def __init__(self, idx, valid, k):
        self.idx, self.valid, self.k = idx, valid, k
        self.reference_name, self.mapping_quality = 'chr1', 60


class SFrag:
    def __init__(self, reads, **kw):
        self.tok = reads[0]
        self.match_hash = KEYS[self.tok.k]

    def is_valid(self):
        return self.tok.valid

    def get_span(self):
        return ('chr1', 0, 100 + self.tok.idx)


def make_mol_class(cap, overflowed):
    class SMol:
        def __init__(self, fragment, **kw):
            self.fragments = [fragment]
            self.key = fragment.tok.k
            self.reason = None
            self.finalised = 0

        def add_fragment(self, fragment, use_hash=True):
            if fragment.tok.k != self.key:
                return False
            if cap > 0 and len(self.fragments) >= cap:
                overflowed.append(fragment.tok.idx)
                raise OverflowError()
            self.fragments.append(fragment)
            return True

        def can_be_yielded(self, chrom, pos):
            return False

        def set_rejection_reason(self, r):
            self.reason = r

        def __len__(self):
            return len(self.fragments)

        def __iter__(self):
            return iter(self.fragments)

        def __finalise__(self):
            self.finalised += 1
    return SMol


def check_iterator_conservation(n, valid, keys, cap, pooling, rejects, cee):
    overflowed = []
    toks = [[Tok(i, valid[i], keys[i]), None] for i in range(n)]
    it = MoleculeIterator(toks, molecule_class=make_mol_class(cap, overflowed), fragment_class=SFrag,
                          check_eject_every=cee, perform_qflag=False, pooling_method=pooling,
                          yield_invalid=rejects, yield_overflow=rejects)
    got = []
    for m in it:
        if m.finalised != 1:
            return 'finalise'
        for f in m:
            got.append(f.tok.idx)
    if rejects:
        exp = list(range(n))
    else:
        exp = [i for i in range(n) if valid[i] and i not in overflowed]
    if sorted(got) != exp:
        if len(got) != len(set(got)):
            return 'fragment_twice'
        if any(i not in got for i in exp):
            return 'fragment_lost'
        return 'reject_emitted'
    return None
