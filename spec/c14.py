"""C14 oracle: independent context classifier (CG -> z, C[ACT]G -> x, C[ACT][ACT] -> h; upper case iff converted)."""
_COMP = {'A': 'T', 'C': 'G', 'G': 'C', 'T': 'A', 'N': 'N'}
B5 = 'ACGTN'


def revcomp(s):
    return ''.join(_COMP.get(c, 'N') for c in reversed(s))


def context(ref, pos, ref_base):
    """three-base context in the orientation of the cytosine, truncated at the contig ends"""
    if ref_base == 'C':
        return ref[pos:pos + 3]
    lo = pos - 2 if pos >= 2 else 0
    return revcomp(ref[lo:pos + 1])


def classify(ctx):
    if len(ctx) < 2 or ctx[0] != 'C':
        return '.'
    if ctx[1] == 'G':
        return 'z'
    if len(ctx) < 3 or ctx[1] not in 'ACT':
        return '.'
    if ctx[2] == 'G':
        return 'x'
    if ctx[2] in 'ACT':
        return 'h'
    return '.'


def letter(ref, pos, ref_base, observed):
    conv = 'T' if ref_base == 'C' else 'A'
    if observed == conv:
        return classify(context(ref, pos, ref_base)).upper()
    if observed == ref_base:
        return classify(context(ref, pos, ref_base))
    return '.'
