"""MemFS: in-memory stand-in for gzip.open / open / time.time (environment stub).
Contract modelled: 'w' truncates, 'a' appends, a closed handle rejects writes, every open handle
occupies one descriptor, open() raises OSError(EMFILE) when `limit` descriptors are in use,
optionally one transient failure at open-call number `fail_at`, optionally one path that can
never be opened (`perm_path`). Clock is strictly increasing."""
import errno


class MemHandle:
    def __init__(self, fs, path, binary):
        self.fs, self.path, self.binary, self.closed = fs, path, binary, False

    def write(self, data):
        if self.closed:
            raise ValueError('write to closed file')
        if self.binary:
            if not isinstance(data, (bytes, bytearray)):
                raise TypeError('a bytes-like object is required')
            data = data.decode('UTF-8')
        else:
            if not isinstance(data, str):
                raise TypeError('write() argument must be str')
        self.fs.files[self.path].append(data)
        return len(data)

    def close(self):
        if not self.closed:
            self.closed = True
            self.fs.open_count -= 1

    def __enter__(self):
        return self

    def __exit__(self, *a):
        self.close()


class MemFS:
    def __init__(self, limit=None, fail_at=None, perm_path=None):
        self.files = {}
        self.open_count = 0
        self.max_open_seen = 0
        self.limit = limit
        self.fail_at = fail_at
        self.perm_path = perm_path
        self.open_calls = 0
        self.clock = 0
        self.failed_with_others_open = []  # for each failed open: number of handles open at that time
        self.log = []

    def _open(self, path, mode, binary):
        idx = self.open_calls
        self.open_calls += 1
        if self.perm_path is not None and path == self.perm_path:
            self.failed_with_others_open.append(self.open_count)
            raise OSError(errno.EACCES, 'Permission denied', path)
        if self.fail_at is not None and idx == self.fail_at:
            self.failed_with_others_open.append(self.open_count)
            raise OSError(errno.EMFILE, 'Too many open files (transient)', path)
        if self.limit is not None and self.open_count >= self.limit:
            self.failed_with_others_open.append(self.open_count)
            raise OSError(errno.EMFILE, 'Too many open files', path)
        if 'w' in mode or path not in self.files:
            self.files[path] = []
        self.open_count += 1
        if self.open_count > self.max_open_seen:
            self.max_open_seen = self.open_count
        self.log.append((path, mode))
        return MemHandle(self, path, binary)

    # gzip.open(path, mode, compresslevel)
    def open(self, path, mode='rb', compresslevel=9, **kw):
        return self._open(path, mode, binary=('t' not in mode))

    # builtin open(path, mode)
    def builtin_open(self, path, mode='r', *a, **kw):
        return self._open(path, mode, binary=('b' in mode))

    def time(self):
        self.clock += 1
        return self.clock

    def content(self, path):
        return ''.join(self.files.get(path, []))
