"""StubBarcodeParser: nondeterministic stand-in for BarcodeParser inside the strategy harnesses (C01/C02/C04).
Contract (proved separately for the real parser by C03): returns (index, corrected barcode of the same length, distance)
or (None, None, None)."""


class StubBarcodeParser:
    def __init__(self, accept=True, index=17, index_accept=True, index_alias='idx', verdicts=None):
        self.accept, self.index, self.index_accept, self.index_alias = accept, index, index_accept, index_alias
        self.verdicts = verdicts or {}   # alias -> bool, overrides `accept`
        self.correct = None              # optional function raw barcode -> corrected barcode (same length)
        self.min_len = 0                 # a whitelist only holds full-length barcodes: shorter observed barcodes are never accepted
        self.calls = []

    def getIndexCorrectedBarcodeAndHammingDistance(self, barcode, alias, try_lazy_load_pending=True):
        self.calls.append((alias, barcode))
        if alias == self.index_alias:
            if self.index_accept:
                return 1, barcode, 0
            return None, None, None
        if len(barcode) < self.min_len:
            return None, None, None
        if self.verdicts.get(alias, self.accept):
            return self.index, (barcode if self.correct is None else self.correct(barcode)), 0
        return None, None, None

    def __getitem__(self, alias):
        # barcode -> index map of an alias (TCHIC builds its bleed-through table from parser['celseq2'])
        return {'AGTGTGTC': 17, 'CACACAGT': 1, 'GTGTGAGA': 2, 'TCTCTCAC': 3, 'ACACTCTG': self.index}

    def __contains__(self, alias):
        return True
