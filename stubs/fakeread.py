"""FakeRead: pure-Python stand-in for pysam.AlignedSegment (environment stub).

Only the documented contract of the accessors that the code under test uses is
modelled. CIGAR operations are concrete op-codes with (possibly symbolic) lengths.
Validated against real pysam reads in stubs/validate.py (from_pysam round trip).
"""

M, I, D, N, S, H, P, EQ, X = range(9)
_REF = (M, D, N, EQ, X)
_QRY = (M, I, S, EQ, X)
_OPC = 'MIDNSHP=X'


class FakeRead:
    def __init__(self, query_name='r', reference_name='chr1', reference_start=0, cigartuples=None,
                 seq=None, qual=None, is_reverse=False, is_read1=True, is_read2=False, is_paired=False,
                 is_proper_pair=False, is_unmapped=False, mate_is_unmapped=False, is_qcfail=False,
                 is_duplicate=False, is_secondary=False, is_supplementary=False, mapping_quality=60,
                 tags=None, lazy_tags=None, reference_id=0, next_reference_start=None, next_reference_name=None,
                 template_length=0):
        self.query_name = query_name
        self.reference_name = reference_name
        self.reference_id = reference_id
        self.reference_start = reference_start
        self.cigartuples = cigartuples
        self.query_sequence = seq
        self._qual = qual
        self.is_reverse = is_reverse
        self.is_read1 = is_read1
        self.is_read2 = is_read2
        self.is_paired = is_paired
        self.is_proper_pair = is_proper_pair
        self.is_unmapped = is_unmapped
        self.mate_is_unmapped = mate_is_unmapped
        self.is_qcfail = is_qcfail
        self.is_duplicate = is_duplicate
        self.is_secondary = is_secondary
        self.is_supplementary = is_supplementary
        self.mapping_quality = mapping_quality
        self.tags = dict(tags or {})
        self.lazy_tags = dict(lazy_tags or {})  # key -> (present: bool-ish, value)
        self.next_reference_start = next_reference_start
        self.next_reference_name = next_reference_name
        self.template_length = template_length
        self.tag_writes = []  # log of (key, value) writes, in order

    # --- sequence / quality
    @property
    def seq(self):
        return self.query_sequence

    @seq.setter
    def seq(self, v):
        self.query_sequence = v

    @property
    def query_alignment_sequence(self):
        s = self.query_sequence
        if s is None:
            return None
        lo, hi = self.query_alignment_start, self.query_alignment_end
        return s[lo:hi]

    @property
    def query_alignment_start(self):
        n = 0
        for op, l in (self.cigartuples or []):
            if op == S:
                n += l
            elif op == H:
                continue
            else:
                break
        return n

    @property
    def query_alignment_end(self):
        n = 0
        tail = 0
        for op, l in (self.cigartuples or []):
            if op in _QRY:
                n += l
        for op, l in reversed(self.cigartuples or []):
            if op == S:
                tail += l
            elif op == H:
                continue
            else:
                break
        return n - tail

    @property
    def qual(self):
        return self._qual

    @qual.setter
    def qual(self, v):
        self._qual = v

    @property
    def query_qualities(self):
        if self._qual is None:
            return None
        return [ord(c) - 33 for c in self._qual]

    @query_qualities.setter
    def query_qualities(self, v):
        self._qual = None if v is None else ''.join(chr(q + 33) for q in v)

    @property
    def query_alignment_qualities(self):
        q = self.query_qualities
        if q is None:
            return None
        return q[self.query_alignment_start:self.query_alignment_end]

    @property
    def query_length(self):
        return 0 if self.query_sequence is None else len(self.query_sequence)

    def infer_query_length(self, always=False):
        if not self.cigartuples:
            return None
        return sum(l for op, l in self.cigartuples if op in _QRY)

    def infer_read_length(self):
        if not self.cigartuples:
            return None
        return sum(l for op, l in self.cigartuples if op in _QRY or op == H)

    # --- cigar
    @property
    def cigar(self):
        return list(self.cigartuples or [])

    @property
    def cigarstring(self):
        if not self.cigartuples:
            return None
        return ''.join('%d%s' % (l, _OPC[op]) for op, l in self.cigartuples)

    @cigarstring.setter
    def cigarstring(self, s):
        import re
        self.cigartuples = [(_OPC.index(o), int(n)) for n, o in re.findall(r'(\d+)([MIDNSHP=X])', s)]

    @property
    def reference_length(self):
        if not self.cigartuples:
            return None
        return sum(l for op, l in self.cigartuples if op in _REF)

    @property
    def reference_end(self):
        if self.is_unmapped or not self.cigartuples or self.reference_start is None:
            return None
        return self.reference_start + self.reference_length

    @property
    def pos(self):
        return self.reference_start

    def get_blocks(self):
        out = []
        pos = self.reference_start
        for op, l in (self.cigartuples or []):
            if op in (M, EQ, X):
                out.append((pos, pos + l))
                pos += l
            elif op in (D, N):
                pos += l
        return out

    def get_aligned_pairs(self, matches_only=False, with_seq=False):
        out = []
        q = 0
        r = self.reference_start
        ref = getattr(self, 'reference_bases', None)  # optional: dict refpos -> base
        for op, l in (self.cigartuples or []):
            if op in (M, EQ, X):
                for i in range(l):
                    if with_seq:
                        qb = self.query_sequence[q + i]
                        if ref is not None and (r + i) in ref:
                            rb = ref[r + i]
                            rb = rb.upper() if rb.upper() == qb.upper() else rb.lower()
                        else:
                            rb = qb.upper()
                        out.append((q + i, r + i, rb))
                    else:
                        out.append((q + i, r + i))
                q += l
                r += l
            elif op in (I, S):
                if not matches_only:
                    for i in range(l):
                        out.append((q + i, None, None) if with_seq else (q + i, None))
                q += l
            elif op in (D, N):
                if not matches_only and op == D:
                    for i in range(l):
                        out.append((None, r + i, None) if with_seq else (None, r + i))
                elif not matches_only and op == N:
                    for i in range(l):
                        out.append((None, r + i, None) if with_seq else (None, r + i))
                r += l
        return out

    def get_reference_positions(self, full_length=False):
        return [r for q, r in self.get_aligned_pairs(matches_only=True)]

    # --- tags
    def has_tag(self, key):
        if key in self.tags:
            return True
        if key in self.lazy_tags:
            return self.lazy_tags[key][0]
        return False

    def get_tag(self, key):
        if key in self.tags:
            return self.tags[key]
        if key in self.lazy_tags:
            present, value = self.lazy_tags[key]
            if present:
                return value
        raise KeyError("tag '%s' not present" % key)

    def set_tag(self, key, value, value_type=None, replace=True):
        self.tag_writes.append((key, value))
        self.lazy_tags.pop(key, None)
        if value is None:
            self.tags.pop(key, None)
        else:
            self.tags[key] = value

    def get_tags(self, with_value_type=False):
        return list(self.tags.items())

    def set_tags(self, tags):
        self.tags = {t[0]: t[1] for t in tags}

    def __repr__(self):
        return 'FakeRead(%r,%r:%r,%r,rev=%r)' % (self.query_name, self.reference_name, self.reference_start,
                                               self.cigarstring, self.is_reverse)

    # --- conversion helpers (concrete only)
    @classmethod
    def from_pysam(cls, r):
        fr = cls(query_name=r.query_name, reference_name=r.reference_name, reference_start=r.reference_start,
                 cigartuples=list(r.cigartuples) if r.cigartuples else None, seq=r.query_sequence, qual=r.qual,
                 is_reverse=r.is_reverse, is_read1=r.is_read1, is_read2=r.is_read2, is_paired=r.is_paired,
                 is_proper_pair=r.is_proper_pair, is_unmapped=r.is_unmapped, mate_is_unmapped=r.mate_is_unmapped,
                 is_qcfail=r.is_qcfail, is_duplicate=r.is_duplicate, is_secondary=r.is_secondary,
                 is_supplementary=r.is_supplementary, mapping_quality=r.mapping_quality, tags=dict(r.get_tags()),
                 reference_id=r.reference_id, next_reference_start=r.next_reference_start,
                 next_reference_name=r.next_reference_name, template_length=r.template_length)
        return fr

    def to_pysam(self, header):
        import pysam
        r = pysam.AlignedSegment(header)
        r.query_name = self.query_name
        r.query_sequence = self.query_sequence
        if self._qual is not None:
            r.query_qualities = pysam.qualitystring_to_array(self._qual)
        flag = 0
        r.is_paired = bool(self.is_paired)
        r.is_proper_pair = bool(self.is_proper_pair)
        r.is_unmapped = bool(self.is_unmapped)
        r.mate_is_unmapped = bool(self.mate_is_unmapped)
        r.is_reverse = bool(self.is_reverse)
        r.is_read1 = bool(self.is_read1)
        r.is_read2 = bool(self.is_read2)
        r.is_qcfail = bool(self.is_qcfail)
        r.is_duplicate = bool(self.is_duplicate)
        r.is_secondary = bool(self.is_secondary)
        r.is_supplementary = bool(self.is_supplementary)
        if not self.is_unmapped:
            r.reference_name = self.reference_name
            r.reference_start = int(self.reference_start)
            r.cigartuples = [(int(o), int(l)) for o, l in self.cigartuples]
        r.mapping_quality = int(self.mapping_quality)
        for k, v in self.tags.items():
            r.set_tag(k, v)
        return r
