"""FakeFasta: stand-in for pysam.FastaFile / CachedFasta. Contract (validated against real pysam in C14 preflight):
fetch(contig, start, end) raises ValueError for start < 0 or start > end or unknown contig, silently truncates at the contig end."""


class FakeFasta:
    def __init__(self, contigs):
        self.contigs = dict(contigs)
        self.references = list(self.contigs)
        self.lengths = [len(v) for v in self.contigs.values()]

    def fetch(self, reference=None, start=None, end=None, region=None):
        if reference not in self.contigs:
            raise KeyError("sequence '%s' not present" % reference)
        seq = self.contigs[reference]
        if start is None:
            start = 0
        if end is None:
            end = len(seq)
        if start < 0:
            raise ValueError('start out of range (%i)' % start)
        if start > end:
            raise ValueError('invalid coordinates: start (%i) > stop (%i)' % (start, end))
        return seq[start:end]

    def get_reference_length(self, contig):
        return len(self.contigs[contig])
