"""FakeAlignmentFile / FakePysam: stand-in for pysam.AlignmentFile inside bamBinCounts / bamFunctions (environment stub).
fetch(contig, start, stop) yields, in coordinate order, the reads of that contig overlapping [start, stop) - the htslib contract."""


class FakePysamModule:
    def __init__(self):
        self.files = {}          # path -> dict(references=[...], lengths=[...], reads=[FakeRead,...])
        mod = self

        class AlignmentFile:
            def __init__(self, path, mode='rb', threads=1, **kw):
                f = mod.files[path]
                self.path = path
                self.references = tuple(f['references'])
                self.lengths = tuple(f['lengths'])
                self._reads = f['reads']
                self.fetch_log = f.setdefault('fetch_log', [])

            def __enter__(self):
                return self

            def __exit__(self, *a):
                return False

            def close(self):
                pass

            def get_reference_length(self, r):
                return self.lengths[self.references.index(r)]

            def __iter__(self):
                return iter(self._reads)

            mapped = 1
            unmapped = 0
            nocoordinate = 0

            def fetch(self, contig=None, start=None, stop=None, end=None, until_eof=False):
                if stop is None:
                    stop = end
                if contig is not None and contig not in self.references:
                    raise ValueError('invalid contig `%s`' % contig)
                if start is not None and start < 0:
                    raise ValueError('start out of range (%s)' % start)
                self.fetch_log.append((contig, start, stop))
                for r in self._reads:
                    if contig is not None and r.reference_name != contig:
                        continue
                    if start is not None and stop is not None:
                        if not (r.reference_start < stop and r.reference_end > start):
                            continue
                    yield r
        self.AlignmentFile = AlignmentFile
