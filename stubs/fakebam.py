"""FakeAlignmentFile / FakePysam: stand-in for pysam.AlignmentFile inside bamBinCounts / bamFunctions (environment stub).
fetch(contig, start, stop) yields, in coordinate order, the reads of that contig overlapping [start, stop) - the htslib contract."""


class FakePysamModule:
    def __init__(self):
        self.files = {}          # path -> dict(references=[...], lengths=[...], reads=[FakeRead,...])
        mod = self

        class AlignmentFile:
            def __init__(self, path, mode='rb', threads=1, **kw):
                f = mod.files[path]
                self.path = path
                self.references = tuple(f['references'])
                self.lengths = tuple(f['lengths'])
                self._reads = f['reads']
                self.fetch_log = f.setdefault('fetch_log', [])

            def __enter__(self):
                return self

            def __exit__(self, *a):
                return False

            def close(self):
                pass

            def get_reference_length(self, r):
                return self.lengths[self.references.index(r)]

            def __iter__(self):
                return iter(self._reads)

            mapped = 1
            unmapped = 0
            nocoordinate = 0

            def fetch(self, contig=None, start=None, stop=None, end=None, until_eof=False):
                if stop is None:
                    stop = end
                if contig is not None and contig not in self.references:
                    raise ValueError('invalid contig `%s`' % contig)
                if start is not None and start < 0:
                    raise ValueError('start out of range (%s)' % start)
                self.fetch_log.append((contig, start, stop))
                for r in self._reads:
                    if contig is not None and r.reference_name != contig:
                        continue
                    if start is not None and stop is not None:
                        if not (r.reference_start < stop and r.reference_end > start):
                            continue
                    yield r
        self.AlignmentFile = AlignmentFile


class SplitPysam:
    """pysam stand-in for bamSplitByTag: one input file (a list of reads) and any number of output files.
    Opening an output path in 'wb' mode TRUNCATES it (as the file system does); the number of simultaneously open output
    handles and the number of opens per path are recorded."""

    def __init__(self, inputs):
        self.inputs = inputs              # path -> list of reads
        self.out = {}                     # path -> list of written reads
        self.opens = {}                   # path -> number of times opened for writing
        self.open_now = 0
        self.max_open = 0
        self.indexed = []
        self.passes = 0
        mod = self

        class _Header:
            def copy(self):
                return self

        class AlignmentFile:
            def __init__(self, path, mode='rb', header=None, **kw):
                self.path = path
                self.mode = mode
                self.filename = path.encode()
                self.header = _Header()
                self.closed = False
                if 'w' in mode:
                    mod.out[path] = []
                    mod.opens[path] = mod.opens.get(path, 0) + 1
                    mod.open_now += 1
                    if mod.open_now > mod.max_open:
                        mod.max_open = mod.open_now
                else:
                    mod.passes += 1
                    if mod.passes > 12:
                        raise RuntimeError('harness: more than 12 passes over the input (driver loop does not terminate)')

            def __iter__(self):
                return iter(mod.inputs[self.path])

            def write(self, r):
                if self.closed:
                    raise ValueError('I/O operation on closed file')
                mod.out[self.path].append(r)

            def close(self):
                if not self.closed and 'w' in self.mode:
                    mod.open_now -= 1
                self.closed = True
        self.AlignmentFile = AlignmentFile

    def index(self, path):
        self.indexed.append(path)


class SerialPool:
    def __init__(self, n=1):
        pass

    def __enter__(self):
        return self

    def __exit__(self, *a):
        return False

    def imap_unordered(self, fn, items):
        for it in items:
            yield fn(it)
