"""FakeVariantFile + in-memory gzip/os for alleleTools (environment stubs).
Contract: VariantFile(path) is a context manager; fetch(contig, start, stop) yields the records of that contig in order and raises
ValueError('invalid contig') for a contig that is not in the file; fetch(None) yields every record."""


class Rec:
    def __init__(self, chrom, pos, ref, alts, genotypes):
        """genotypes: ordered dict sample -> tuple of alleles (str or None)"""
        self.chrom, self.pos, self.ref, self.alts = chrom, pos, ref, tuple(alts)
        self.alleles = (ref,) + tuple(alts)

        class SD:
            def __init__(self, a):
                self.alleles = a
        self.samples = {s: SD(a) for s, a in genotypes.items()}


class World:
    def __init__(self, records, contigs):
        self.records, self.contigs = records, contigs
        self.files = {}       # path -> text
        self.opened = []      # VariantFile opens
        self.fetches = []


def make_pysam(world):
    class VariantFile:
        def __init__(self, path, *a, **k):
            world.opened.append(path)
            self.filename = path.encode('ascii') if isinstance(path, str) else path

        def __enter__(self):
            return self

        def __exit__(self, *a):
            return False

        def fetch(self, contig=None, start=None, stop=None, **kw):
            world.fetches.append(contig)
            if contig is not None and contig not in world.contigs:
                raise ValueError('invalid contig `%s`' % contig)
            for r in world.records:
                if contig is None or r.chrom == contig:
                    yield r

    class libcbcf:
        pass
    libcbcf.VariantFile = VariantFile

    class P:
        pass
    P.VariantFile = VariantFile
    P.libcbcf = libcbcf
    return P


def make_gzip_os(world):
    class H:
        def __init__(self, path, mode):
            self.path, self.mode, self.buf = path, mode, ''

        def write(self, s):
            self.buf += s

        def __iter__(self):
            return iter(world.files[self.path].splitlines(True))

        def __enter__(self):
            if 'r' in self.mode and self.path not in world.files:
                raise FileNotFoundError(self.path)
            return self

        def __exit__(self, *a):
            if 'w' in self.mode:
                world.files[self.path] = self.buf
            return False

    class GZ:
        @staticmethod
        def open(path, mode='rb', *a, **k):
            return H(path, mode)

    class Path:
        @staticmethod
        def exists(p):
            return p in world.files or p.rstrip('/') + '/' in world.files

        @staticmethod
        def abspath(p):
            return '/abs/' + p

    class OS:
        path = Path

        @staticmethod
        def makedirs(p, *a, **k):
            world.files[p.rstrip('/') + '/'] = ''

        @staticmethod
        def rename(a, b):
            world.files[b] = world.files.pop(a)
    return GZ, OS
