"""Differential validation of stubs/fakeread.py against real pysam records (run in the preflight of the harnesses that rely on
read geometry): every primary record of the repository's test BAM files is converted with FakeRead.from_pysam and each accessor
the code under test uses must give the same answer as the real record."""
import os


def validate_fakeread(limit=400):
    import pysam
    from stubs.fakeread import FakeRead
    paths = [p for p in ('/repo/data/mini_nla_test.bam', '/repo/data/chic_test_region.bam') if os.path.exists(p)]
    n = 0
    kinds = set()
    for path in paths:
        with pysam.AlignmentFile(path) as f:
            for r in f.fetch(until_eof=True):
                if n >= limit:
                    break
                fr = FakeRead.from_pysam(r)
                if r.is_unmapped or not r.cigartuples:
                    assert fr.reference_end is None or fr.reference_end == r.reference_end
                    continue
                for name in ('reference_start', 'reference_end', 'reference_length', 'query_alignment_start', 'query_alignment_end',
                             'query_alignment_sequence', 'cigarstring', 'query_length', 'is_reverse', 'is_read1', 'is_read2', 'mapping_quality'):
                    assert getattr(fr, name) == getattr(r, name), (path, r.query_name, name, getattr(fr, name), getattr(r, name))
                assert fr.get_blocks() == r.get_blocks(), (path, r.query_name, 'get_blocks')
                assert fr.get_aligned_pairs(matches_only=True) == r.get_aligned_pairs(matches_only=True), (path, r.query_name, 'pairs')
                assert fr.get_aligned_pairs() == r.get_aligned_pairs(), (path, r.query_name, 'pairs_all')
                assert fr.get_reference_positions() == r.get_reference_positions(), (path, r.query_name, 'refpos')
                assert fr.infer_query_length() == r.infer_query_length()
                assert list(fr.query_qualities) == list(r.query_qualities)
                assert list(fr.query_alignment_qualities) == list(r.query_alignment_qualities)
                for k, v in r.get_tags():
                    assert fr.has_tag(k) and fr.get_tag(k) == v
                kinds.update(op for op, l in r.cigartuples)
                back = fr.to_pysam(f.header)
                assert (back.reference_start, back.cigarstring, back.query_sequence, back.flag & 0xFDF) == (r.reference_start, r.cigarstring, r.query_sequence, r.flag & 0xFDF), (r.query_name, 'to_pysam')
                n += 1
    return dict(fakeread_vs_pysam='%d real records compared accessor by accessor (CIGAR operations seen: %s)' % (n, ''.join('MIDNSHP=X'[k] for k in sorted(kinds))))
