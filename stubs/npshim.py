"""npshim: pure-Python stand-in for the handful of numpy calls in features.py, so coordinates stay symbolic.
Validated against real numpy in harness preflight (random small integer arrays)."""
import bisect


class Arr(list):
    def __getitem__(self, k):
        if isinstance(k, (list, Arr)):
            return Arr(list.__getitem__(self, i) for i in k)
        r = list.__getitem__(self, k)
        return Arr(r) if isinstance(k, slice) else r

    # element-wise arithmetic / conversion as numpy arrays offer it (so that "vectorised" rewrites of the code under test still run
    # on the shim; values are Python / symbolic integers, there is no width)
    def astype(self, dtype=None):
        return Arr(self)

    def __sub__(self, other):
        if isinstance(other, (list, Arr)):
            if len(other) != len(self):
                raise ValueError('operands could not be broadcast together')
            return Arr(a - b for a, b in zip(self, other))
        return Arr(a - other for a in self)

    def __add__(self, other):
        if isinstance(other, (list, Arr)):
            if len(other) != len(self):
                raise ValueError('operands could not be broadcast together')
            return Arr(a + b for a, b in zip(self, other))
        return Arr(a + other for a in self)


int64 = 'int64'
uint64 = 'uint64'


def fromiter(it, dtype=None, count=-1):
    return Arr(it)


def argsort(a, kind=None):
    return Arr(sorted(range(len(a)), key=lambda i: a[i]))


def searchsorted(a, v, side='left'):
    if isinstance(v, (list, tuple)):
        return Arr(searchsorted(a, x, side) for x in v)
    # explicit loop (bisect compares through C for symbolic values as well, but keep it transparent)
    n = 0
    if side == 'left':
        for x in a:
            if x < v:
                n += 1
            else:
                break
    else:
        for x in a:
            if x <= v:
                n += 1
            else:
                break
    return n


def max(a):
    m = None
    for x in a:
        if m is None or x > m:
            m = x
    if m is None:
        raise ValueError('zero-size array to reduction operation maximum which has no identity')
    return m
