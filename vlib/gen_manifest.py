#!/usr/bin/env python3
"""Regenerate MANIFEST.json from the harness modules present (harness/Cxx.py with MANIFEST_ENTRY)."""
import ast, json, os, re, sys
ROOT = os.path.dirname(os.path.dirname(os.path.abspath(__file__)))
BASE = json.load(open('/root/.vp/BASELINE.json'))['cmd'] if os.path.exists('/root/.vp/BASELINE.json') else ''
BASE_CMD = "cd /repo && /venv/bin/python -m pytest -ra -q -p no:cacheprovider --timeout=900 --continue-on-collection-errors"

props = [json.loads(l) for l in open(os.path.join(ROOT, 'properties.jsonl'))]
checks, na = [], []
pending = json.load(open(os.path.join(ROOT, 'vlib', 'manifest_meta.json')))
for p in props:
    pid = p['id']
    hp = os.path.join(ROOT, 'harness', pid + '.py')
    meta = pending.get(pid, {})
    if os.path.exists(hp) and meta.get('claimed'):
        checks.append(dict(
            property_id=pid,
            quick_cmd='bin/check %s --tier quick' % pid,
            thorough_cmd='bin/check %s --tier thorough' % pid,
            evidence_file='/verif/evidence/%s.json' % pid,
            replay_cmd_template='bin/check %s --replay {path}' % pid,
            engine='crosshair-z3',
            level_claimed=dict(category='model_checking', text=meta['text'], design_ref=meta.get('design_ref', 'DESIGN.md section 3, ' + pid)),
            level_note=meta['note'],
            technique=meta.get('technique', 'bounded symbolic execution of the real Python functions (CrossHair) with z3 deciding every path and post-condition; counterexamples replayed on real code'),
        ))
    else:
        na.append(dict(property_id=pid, reason=meta.get('na_reason', 'check not built yet in this framework (work in progress); no claim is made')))

man = dict(
    version=1,
    setup_cmd='python3 vlib/bootstrap.py',
    hooks=dict(guard='SCMO_VERIF', enable='not used: no hooks in /repo; environment stubs are injected into module namespaces from /verif at harness import',
               baseline_off_cmd=BASE_CMD, source_commits=[], add_only=True),
    engines=[dict(name='crosshair-z3', path='vlib/worker.py', serves_properties=[c['property_id'] for c in checks],
                  kind_free_text='CrossHair 0.0.110 symbolic execution of the real repository functions, z3 5.1.0 as the deciding solver; own AST->z3 translation (vlib/py2smt.py) for arithmetic kernels, every such query cross-checked by the cvc5 1.0.3 binary, which also decides the bounded bit-precise float lemma (QF_BVFP) of C10')],
    checks=checks,
    notes='All checks: exit 0 = held on everything explored (inconclusive lemmas listed in evidence), 1 = replay-confirmed violation, 2 = harness error. See DESIGN.md.',
    not_applicable=na,
)
json.dump(man, open(os.path.join(ROOT, 'MANIFEST.json'), 'w'), indent=1)
print('checks:', [c['property_id'] for c in checks], 'na:', len(na))
