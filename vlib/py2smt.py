"""E2: translate a loop-free Python function (taken from the live module with inspect.getsource)
into z3 terms. Python ints -> z3 Int (unbounded), `/` -> Real division (floats treated as
reals: see lemma F in DESIGN.md), int()/floor/ceil/min/max/abs, comparisons, bool ops, if/else
with early returns -> ite, tuple returns. Anything else raises Untranslatable (=> harness error,
never a pass)."""
import ast, inspect, textwrap
import z3


class Untranslatable(Exception):
    pass


def _is_z3(x):
    return isinstance(x, z3.ExprRef)


def _to_real(x):
    if isinstance(x, bool):
        raise Untranslatable('bool in arithmetic')
    if isinstance(x, (int, float)):
        return z3.RealVal(x)
    if z3.is_int(x):
        return z3.ToReal(x)
    return x


def _is_real(x):
    return isinstance(x, float) or (_is_z3(x) and z3.is_real(x))


def _z(x):
    if isinstance(x, bool):
        return z3.BoolVal(x)
    if isinstance(x, int):
        return z3.IntVal(x)
    if isinstance(x, float):
        return z3.RealVal(x)
    return x


def floordiv(a, b):
    a, b = _z(a), _z(b)
    if z3.is_int(a) and z3.is_int(b):
        return z3.If(b > 0, a / b, (-a) / (-b))
    q = _to_real(a) / _to_real(b)
    return z3.ToReal(z3.ToInt(q))


def pymod(a, b):
    a, b = _z(a), _z(b)
    if z3.is_int(a) and z3.is_int(b):
        return a - b * floordiv(a, b)
    raise Untranslatable('float modulo')


def py_int(x):
    x = _z(x)
    if z3.is_int(x):
        return x
    return z3.If(x >= 0, z3.ToInt(x), -z3.ToInt(-x))


def py_floor(x):
    x = _z(x)
    return x if z3.is_int(x) else z3.ToInt(x)


def py_ceil(x):
    x = _z(x)
    return x if z3.is_int(x) else -z3.ToInt(-x)


def ite(c, a, b):
    if isinstance(a, tuple) or isinstance(b, tuple):
        if not (isinstance(a, tuple) and isinstance(b, tuple) and len(a) == len(b)):
            raise Untranslatable('tuple shape mismatch in branches')
        return tuple(ite(c, x, y) for x, y in zip(a, b))
    if a is None and b is None:
        return None
    if a is None or b is None:
        raise Untranslatable('None vs value in branches')
    a, b = _z(a), _z(b)
    if z3.is_int(a) and z3.is_real(b):
        a = z3.ToReal(a)
    if z3.is_real(a) and z3.is_int(b):
        b = z3.ToReal(b)
    return z3.If(c, a, b)


class Translator:
    def __init__(self, env=None, calls=None):
        self.genv = dict(env or {})       # free names (module constants, self.attr as 'self.attr')
        self.calls = dict(calls or {})    # name -> python callable working on terms

    # ---- expressions
    def ev(self, n, env):
        if isinstance(n, ast.Constant):
            if isinstance(n.value, (bool, int, float)) or n.value is None or isinstance(n.value, str):
                return n.value
            raise Untranslatable('constant %r' % (n.value,))
        if isinstance(n, ast.Name):
            if n.id in env:
                return env[n.id]
            if n.id in self.genv:
                return self.genv[n.id]
            if n.id in ('True', 'False', 'None'):
                return {'True': True, 'False': False, 'None': None}[n.id]
            raise Untranslatable('free name %s' % n.id)
        if isinstance(n, ast.Attribute):
            key = ast.unparse(n)
            if key in env:
                return env[key]
            if key in self.genv:
                return self.genv[key]
            raise Untranslatable('attribute %s' % key)
        if isinstance(n, ast.Tuple) or isinstance(n, ast.List):
            return tuple(self.ev(e, env) for e in n.elts)
        if isinstance(n, ast.UnaryOp):
            v = self.ev(n.operand, env)
            if isinstance(n.op, ast.USub):
                return -_z(v) if _is_z3(v) else -v
            if isinstance(n.op, ast.Not):
                return z3.Not(self.b(v)) if _is_z3(v) else (not v)
            if isinstance(n.op, ast.UAdd):
                return v
            raise Untranslatable('unary op')
        if isinstance(n, ast.BinOp):
            a, b = self.ev(n.left, env), self.ev(n.right, env)
            if not _is_z3(a) and not _is_z3(b) and not isinstance(a, (tuple, str)) and not isinstance(b, (tuple, str)):
                # concrete arithmetic: stay exact with ints; floats as reals
                if isinstance(n.op, ast.Div) or isinstance(a, float) or isinstance(b, float):
                    a, b = _z(a), _z(b)
                else:
                    return {ast.Add: lambda: a + b, ast.Sub: lambda: a - b, ast.Mult: lambda: a * b,
                            ast.FloorDiv: lambda: a // b, ast.Mod: lambda: a % b}[type(n.op)]()
            a, b = _z(a), _z(b)
            if isinstance(n.op, (ast.Add, ast.Sub, ast.Mult)):
                if z3.is_real(a) or z3.is_real(b):
                    a, b = _to_real(a), _to_real(b)
                return {ast.Add: lambda: a + b, ast.Sub: lambda: a - b, ast.Mult: lambda: a * b}[type(n.op)]()
            if isinstance(n.op, ast.Div):
                return _to_real(a) / _to_real(b)
            if isinstance(n.op, ast.FloorDiv):
                return floordiv(a, b)
            if isinstance(n.op, ast.Mod):
                return pymod(a, b)
            raise Untranslatable('binop %s' % type(n.op).__name__)
        if isinstance(n, ast.BoolOp):
            vals = [self.b(self.ev(v, env)) for v in n.values]
            return z3.And(*vals) if isinstance(n.op, ast.And) else z3.Or(*vals)
        if isinstance(n, ast.Compare):
            left = self.ev(n.left, env)
            parts = []
            for op, r in zip(n.ops, n.comparators):
                right = self.ev(r, env)
                parts.append(self.cmp(op, left, right))
                left = right
            return parts[0] if len(parts) == 1 else z3.And(*parts)
        if isinstance(n, ast.IfExp):
            c = self.b(self.ev(n.test, env))
            return ite(c, self.ev(n.body, env), self.ev(n.orelse, env))
        if isinstance(n, ast.Call):
            fname = ast.unparse(n.func)
            args = [self.ev(a, env) for a in n.args]
            if n.keywords:
                raise Untranslatable('keyword call %s' % fname)
            if fname in self.calls:
                return self.calls[fname](*args)
            if fname == 'int':
                return py_int(args[0])
            if fname in ('np.floor', 'math.floor', 'floor'):
                return py_floor(args[0])
            if fname in ('np.ceil', 'math.ceil', 'ceil'):
                return py_ceil(args[0])
            if fname == 'float':
                return _to_real(_z(args[0]))
            if fname == 'abs':
                v = _z(args[0])
                return z3.If(v >= 0, v, -v)
            if fname in ('min', 'max'):
                if len(args) == 1 and isinstance(args[0], tuple):
                    args = list(args[0])
                r = _z(args[0])
                for x in args[1:]:
                    x = _z(x)
                    if z3.is_real(r) != z3.is_real(x):
                        r, x = _to_real(r), _to_real(x)
                    r = z3.If(x < r, x, r) if fname == 'min' else z3.If(x > r, x, r)
                return r
            raise Untranslatable('call %s' % fname)
        if isinstance(n, ast.Subscript):
            v = self.ev(n.value, env)
            i = self.ev(n.slice, env)
            if isinstance(v, tuple) and isinstance(i, int):
                return v[i]
            raise Untranslatable('subscript')
        raise Untranslatable('expr %s' % type(n).__name__)

    def b(self, v):
        if isinstance(v, bool):
            return z3.BoolVal(v)
        if _is_z3(v) and z3.is_bool(v):
            return v
        if _is_z3(v):
            return v != 0
        raise Untranslatable('truthiness of %r' % (v,))

    def cmp(self, op, a, b):
        if a is None or b is None:
            if isinstance(op, (ast.Is, ast.Eq)):
                return z3.BoolVal(a is b)
            if isinstance(op, (ast.IsNot, ast.NotEq)):
                return z3.BoolVal(a is not b)
            raise Untranslatable('None comparison')
        if isinstance(a, str) or isinstance(b, str):
            if isinstance(a, str) and isinstance(b, str):
                return z3.BoolVal({ast.Eq: a == b, ast.NotEq: a != b}[type(op)])
            raise Untranslatable('string comparison')
        a, b = _z(a), _z(b)
        if z3.is_bool(a) or z3.is_bool(b):
            if isinstance(op, ast.Eq):
                return a == b
            if isinstance(op, ast.NotEq):
                return a != b
            raise Untranslatable('bool ordering')
        if z3.is_real(a) != z3.is_real(b):
            a, b = _to_real(a), _to_real(b)
        t = type(op)
        if t is ast.Lt:
            return a < b
        if t is ast.LtE:
            return a <= b
        if t is ast.Gt:
            return a > b
        if t is ast.GtE:
            return a >= b
        if t is ast.Eq:
            return a == b
        if t is ast.NotEq:
            return a != b
        raise Untranslatable('cmp %s' % t.__name__)

    # ---- statements
    def block(self, stmts, env, active, rets):
        """returns env after the block; `rets` collects (cond, value); `active` = path condition (z3 Bool)."""
        for s in stmts:
            if isinstance(s, ast.Expr):
                if isinstance(s.value, ast.Constant):
                    continue  # docstring
                raise Untranslatable('expression statement')
            elif isinstance(s, ast.Pass):
                continue
            elif isinstance(s, ast.Assign):
                v = self.ev(s.value, env)
                for t in s.targets:
                    self.assign(t, v, env)
            elif isinstance(s, ast.AugAssign):
                cur = self.ev(s.target, env)
                v = self.ev(ast.BinOp(left=s.target, op=s.op, right=s.value), env)
                self.assign(s.target, v, env)
            elif isinstance(s, ast.Return):
                rets.append((active, None if s.value is None else self.ev(s.value, env)))
                return env, z3.BoolVal(False)
            elif isinstance(s, ast.If):
                c = self.b(self.ev(s.test, env))
                e1, a1 = self.block(s.body, dict(env), z3.And(active, c), rets)
                e2, a2 = self.block(s.orelse, dict(env), z3.And(active, z3.Not(c)), rets)
                new = {}
                for k in set(e1) | set(e2):
                    if k in e1 and k in e2:
                        if e1[k] is e2[k]:
                            new[k] = e1[k]
                        else:
                            try:
                                new[k] = ite(c, e1[k], e2[k])
                            except Untranslatable:
                                continue
                    # names defined on one side only are dropped (use would raise Untranslatable)
                env = new
                active = z3.Or(a1, a2)
            elif isinstance(s, ast.Raise):
                rets.append((active, 'RAISE'))
                return env, z3.BoolVal(False)
            elif isinstance(s, ast.Assert):
                continue
            else:
                raise Untranslatable('statement %s' % type(s).__name__)
        return env, active

    def assign(self, t, v, env):
        if isinstance(t, ast.Name):
            env[t.id] = v
        elif isinstance(t, ast.Attribute):
            env[ast.unparse(t)] = v
        elif isinstance(t, (ast.Tuple, ast.List)):
            if not isinstance(v, tuple) or len(v) != len(t.elts):
                raise Untranslatable('unpack')
            for tt, vv in zip(t.elts, v):
                self.assign(tt, vv, env)
        else:
            raise Untranslatable('assign target')

    def function(self, fndef, args):
        env = dict(args)
        rets = []
        env, active = self.block(fndef.body, env, z3.BoolVal(True), rets)
        rets.append((active, None))
        # raising paths
        raise_cond = z3.Or(*[c for c, v in rets if isinstance(v, str) and v == 'RAISE']) if any(
            isinstance(v, str) and v == 'RAISE' for c, v in rets) else z3.BoolVal(False)
        vals = [(c, v) for c, v in rets if not (isinstance(v, str) and v == 'RAISE')]
        result = None
        first = True
        for c, v in reversed(vals):
            if first:
                result = v
                first = False
            else:
                if v is None and result is None:
                    continue
                if v is None or result is None:
                    # mixing None and values: keep value, record condition of None separately
                    result = result if v is None else v
                    continue
                result = ite(c, v, result)
        return result, z3.simplify(raise_cond), env


def get_fndef(obj, name=None):
    src = textwrap.dedent(inspect.getsource(obj))
    tree = ast.parse(src)
    for node in ast.walk(tree):
        if isinstance(node, ast.FunctionDef) and (name is None or node.name == name):
            return node
    raise Untranslatable('function %s not found' % name)


def translate(obj, args, env=None, calls=None, name=None):
    """obj: function object (source re-read now). args: dict param -> term. Returns (result, raise_cond, final_env)."""
    fndef = get_fndef(obj, name)
    params = [a.arg for a in fndef.args.args]
    missing = [p for p in params if p not in args and p != 'self']
    defaults = fndef.args.defaults
    tr = Translator(env, calls)
    if missing:
        # fill defaults
        dmap = dict(zip(params[len(params) - len(defaults):], defaults))
        for p in missing:
            if p in dmap:
                args = dict(args)
                args[p] = tr.ev(dmap[p], {})
            else:
                raise Untranslatable('missing argument %s' % p)
    return tr.function(fndef, args)


CROSS = []      # one record per solve(): z3 verdict, cvc5 verdict (binary on PATH, same SMT-LIB2 text), seconds


def _cvc5(smt2, limit_ms):
    """Second opinion: the same assertion set, printed by z3 as SMT-LIB2, decided by the cvc5 binary."""
    import os, shutil, subprocess, tempfile, time
    exe = shutil.which('cvc5')
    if exe is None or os.environ.get('VERIF_CVC5', '1') == '0':
        return 'not_run', 0.0
    d = os.environ.get('VERIF_SCRATCH') or os.path.join(os.path.dirname(os.path.dirname(os.path.abspath(__file__))), '.scratch')
    os.makedirs(d, exist_ok=True)
    fd, path = tempfile.mkstemp(suffix='.smt2', dir=d)
    try:
        with os.fdopen(fd, 'w') as h:
            h.write('(set-logic ALL)\n' + smt2)
        t = time.perf_counter()
        try:
            p = subprocess.run([exe, '--tlimit=%d' % limit_ms, path], capture_output=True, text=True, timeout=limit_ms / 1000 + 10)
            out = (p.stdout + p.stderr).strip().splitlines()
        except subprocess.TimeoutExpired:
            out = ['timeout']
        dt = time.perf_counter() - t
        if any('(error' in l or 'rror' in l for l in out):
            return 'error', dt        # inconclusive, never read as agreement
        first = out[0].strip() if out else 'no_output'
        return (first if first in ('sat', 'unsat', 'unknown') else 'unknown'), dt
    finally:
        try:
            os.remove(path)
        except OSError:
            pass


def solve(constraints, timeout_ms=60000, seed=0):
    """returns ('unsat'|'sat'|'unknown', model-dict, seconds). Every query is also given to cvc5 (20 s); a sat/unsat
    disagreement between the two solvers turns the answer into 'unknown' (inconclusive)."""
    import time
    s = z3.Solver()
    s.set('timeout', timeout_ms)
    s.set('random_seed', seed % (2 ** 31))
    for c in constraints:
        s.add(c)
    t = time.perf_counter()
    r = s.check()
    dt = time.perf_counter() - t
    model = {}
    if str(r) == 'sat':
        m = s.model()
        for d in m.decls():
            v = m[d]
            try:
                model[d.name()] = v.as_long()
            except Exception:
                try:
                    model[d.name()] = z3.is_true(v) if z3.is_bool(v) else str(v)
                except Exception:
                    model[d.name()] = str(v)
    r = str(r)
    try:
        r2, dt2 = _cvc5(s.to_smt2(), 20000)
    except Exception as e:      # the cross-check must never break the primary verdict path
        r2, dt2 = 'error', 0.0
    CROSS.append(dict(z3=r, cvc5=r2, z3_s=round(dt, 3), cvc5_s=round(dt2, 3)))
    if {r, r2} == {'sat', 'unsat'}:
        return 'unknown', model, dt
    return r, model, dt


def cross_summary():
    """e.g. 'cvc5 agrees on 3/3 (0 unknown, 0 disagree)'"""
    n = len(CROSS)
    agree = sum(1 for c in CROSS if c['z3'] == c['cvc5'])
    dis = sum(1 for c in CROSS if {c['z3'], c['cvc5']} == {'sat', 'unsat'})
    return 'cvc5 cross-check: agrees on %d/%d queries, %d without cvc5 answer, %d disagree (%.1fs)' % (
        agree, n, n - agree - dis, dis, sum(c['cvc5_s'] for c in CROSS))
