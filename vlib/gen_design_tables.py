#!/usr/bin/env python3
"""Fill the FINDINGS-TABLE / SEEDS-TABLE markers of DESIGN.md from known_findings.json and seeded/RESULTS.json."""
import json, os, re
ROOT = os.path.dirname(os.path.dirname(os.path.abspath(__file__)))
kf = json.load(open(os.path.join(ROOT, 'known_findings.json')))['entries']
rows = ['| property | status | commit | lemma / signature | what failed |', '|---|---|---|---|---|']
for e in kf:
    rows.append('| %s | %s | %s | `%s` | %s |' % (e['property'], e['status'], e.get('commit', '-'), e['signature'], e['what'].replace('|', '/')))
ftab = '\n'.join(rows)
rp = os.path.join(ROOT, 'seeded', 'RESULTS.json')
res = json.load(open(rp)) if os.path.exists(rp) else {}
rows = ['| seed | property | what it breaks (first line of the agent\'s note) | caught by quick check | lemma signature |', '|---|---|---|---|---|']
for tag in sorted(os.listdir(os.path.join(ROOT, 'seeded'))):
    mp = os.path.join(ROOT, 'seeded', tag, 'meta.json')
    if not os.path.exists(mp):
        continue
    m = json.load(open(mp))
    r = res.get(tag, {})
    det = 'n/a (see meta.json)' if m.get('status') == 'not_applicable' else ('yes' if r.get('detected') else ('NO' if r else 'not run'))
    rows.append('| %s | %s | %s | %s | %s |' % (tag, m['property'], m.get('breaks', '')[:160].replace('|', '/'), det, ', '.join('`%s`' % x for x in r.get('signatures', [])[:2])))
stab = '\n'.join(rows)
p = os.path.join(ROOT, 'DESIGN.md')
s = open(p).read()
s = re.sub(r'<!-- FINDINGS-TABLE -->.*?(?=\n## 9\.)', '<!-- FINDINGS-TABLE -->\n' + ftab + '\n', s, flags=re.S)
s = re.sub(r'<!-- SEEDS-TABLE -->.*?(?=\n## 10\.)', '<!-- SEEDS-TABLE -->\n' + stab + '\n', s, flags=re.S)
open(p, 'w').write(s)
print('tables written: %d findings, %d seeds' % (len(kf), len(rows) - 2))
