"""Float cut (DESIGN 1.1 rule 3): recompile a function from its current source with
int(np.ceil(A / B)) -> -((-(A)) // (B)),  int(np.floor(A / B)) -> (A) // (B),  int(A / B) -> (A) // (B)
so that CrossHair keeps integers symbolic instead of realising floats at the numpy boundary.
Justified by lemma F (floor(fl(a)/fl(b)) == a // b for |a| < 2**52, 0 < b < 2**31) and, for int(A / B),
by A / B >= 0 at every call site that is cut (stated in the evidence)."""
import ast, inspect, textwrap, types


class _Cut(ast.NodeTransformer):
    def __init__(self):
        self.n = 0

    def visit_Call(self, node):
        self.generic_visit(node)
        f = ast.unparse(node.func)
        if f == 'int' and len(node.args) == 1:
            a = node.args[0]
            if isinstance(a, ast.Call) and ast.unparse(a.func) in ('np.ceil', 'np.floor', 'math.ceil', 'math.floor') and len(a.args) == 1:
                inner = a.args[0]
                if isinstance(inner, ast.BinOp) and isinstance(inner.op, ast.Div):
                    self.n += 1
                    if ast.unparse(a.func).endswith('ceil'):
                        return ast.UnaryOp(ast.USub(), ast.BinOp(ast.UnaryOp(ast.USub(), inner.left), ast.FloorDiv(), inner.right))
                    return ast.BinOp(inner.left, ast.FloorDiv(), inner.right)
            if isinstance(a, ast.BinOp) and isinstance(a.op, ast.Div):
                self.n += 1
                return ast.BinOp(a.left, ast.FloorDiv(), a.right)
            if isinstance(a, ast.BinOp) and isinstance(a.op, ast.FloorDiv):
                return a
        if f in ('np.ceil', 'np.floor') and len(node.args) == 1:
            inner = node.args[0]
            if isinstance(inner, ast.BinOp) and isinstance(inner.op, ast.Div):
                self.n += 1
                if f.endswith('ceil'):
                    return ast.UnaryOp(ast.USub(), ast.BinOp(ast.UnaryOp(ast.USub(), inner.left), ast.FloorDiv(), inner.right))
                return ast.BinOp(inner.left, ast.FloorDiv(), inner.right)
        return node


def cut(fn, namespace=None, extra_transform=None):
    """Return (new_function, number_of_cuts). The new function lives in `namespace` (default: fn's module globals),
    so later monkeypatches of that module are seen."""
    fn = getattr(fn, '__floatcut_orig__', fn)
    src = textwrap.dedent(inspect.getsource(fn))
    tree = ast.parse(src)
    c = _Cut()
    tree = c.visit(tree)
    if extra_transform is not None:
        tree = extra_transform(tree)
    ast.fix_missing_locations(tree)
    ns = fn.__globals__ if namespace is None else namespace
    loc = {}
    code = compile(tree, '<floatcut:%s>' % fn.__qualname__, 'exec')
    exec(code, ns, loc)
    new = loc[fn.__name__]
    new.__floatcut_orig__ = fn
    return new, c.n


def install(module, names):
    """Replace module.<name> by its float-cut version; returns {name: cuts}."""
    out = {}
    for n in names:
        new, k = cut(getattr(module, n))
        setattr(module, n, new)
        out[n] = k
    return out
