#!/usr/bin/env python3
"""bin/check <ID> [--tier quick|thorough] [--replay <path>]

Runs every lemma-case of a property in its own worker process (CrossHair / z3 on the
real code imported from /repo's working tree), replays counterexamples concretely on
the real libraries, matches them against known_findings.json, writes
evidence/<ID>.json and exits 0 / 1 (VIOLATION) / 2 (harness error).
"""
import argparse, concurrent.futures as cf, fnmatch, importlib, json, os, shutil, subprocess, sys, time

ROOT = os.path.dirname(os.path.dirname(os.path.abspath(__file__)))
sys.path.insert(0, ROOT)
from vlib import bootstrap  # noqa: E402

PY = os.path.join(ROOT, '.venv', 'bin', 'python')


def reexec():
    py = bootstrap.ensure()
    if os.path.realpath(sys.executable) != os.path.realpath(py) or os.environ.get('SCMO_VERIF_IN_VENV') != '1':
        # VERIF_REPO (optional, used by bin/seedcheck only): import singlecellmultiomics from another tree than /repo
        pp = ROOT if not os.environ.get('VERIF_REPO') else os.environ['VERIF_REPO'] + os.pathsep + ROOT
        env = dict(os.environ, SCMO_VERIF_IN_VENV='1', PYTHONPATH=pp, PYTHONDONTWRITEBYTECODE='1',
                   PYTHONHASHSEED='0')
        os.execve(py, [py, os.path.abspath(__file__)] + sys.argv[1:], env)


def run_worker(args, wall_timeout):
    cmd = [PY, '-m', 'vlib.worker'] + args
    t0 = time.time()
    try:
        p = subprocess.run(cmd, cwd=ROOT, capture_output=True, text=True, timeout=wall_timeout)
    except subprocess.TimeoutExpired as e:
        return dict(verdict='unknown', detail='wall timeout %ss' % wall_timeout, wall_s=round(time.time() - t0, 1),
                    paths=0, hard_timeout=True)
    for line in reversed(p.stdout.splitlines()):
        if line.startswith('RESULT '):
            r = json.loads(line[7:])
            return r
    return dict(verdict='error', detail='worker produced no result; rc=%s\nstderr: %s\nstdout: %s'
                % (p.returncode, p.stderr[-2000:], p.stdout[-500:]))


def load_known(pid):
    path = os.path.join(ROOT, 'known_findings.json')
    if not os.path.exists(path):
        return []
    return [e for e in json.load(open(path))['entries'] if e['property'] == pid]


def main():
    ap = argparse.ArgumentParser()
    ap.add_argument('pid')
    ap.add_argument('--tier', default=os.environ.get('VERIF_TIER') or 'quick')
    ap.add_argument('--replay')
    ap.add_argument('--only', help='comma list of lemma names (debug; evidence not written)')
    ap.add_argument('--jobs', type=int, default=int(os.environ.get('VERIF_JOBS', '16')))
    a = ap.parse_args()
    reexec()
    pid, tier = a.pid, a.tier
    if tier not in ('quick', 'thorough'):
        tier = 'quick'
    try:
        seed = int(os.environ.get('VERIF_SEED', '0') or 0)
    except ValueError:
        seed = 0
    t_start = time.time()
    modname = 'harness.' + pid

    if a.replay:
        meta = json.load(open(os.path.join(a.replay, 'replay.json')))
        r = run_worker(['--replay', meta['replay'], '--args', json.dumps(meta['args']), '--outdir', a.replay], 600)
        print(json.dumps(r, indent=1))
        if r.get('reproduced'):
            print('VIOLATION property=%s replay=%s' % (pid, a.replay))
            sys.exit(1)
        sys.exit(0)

    # harness import in this process only to read the lemma table + run pre-flight validation
    pre = subprocess.run([PY, '-c', 'import json,importlib,sys; m=importlib.import_module(%r); '
                          'v=getattr(m,"preflight",None); r=v() if v else {}; '
                          'print("PREFLIGHT "+json.dumps(dict(lemmas=m.LEMMAS, prop=m.PROPERTY, preflight=r)))' % modname],
                         cwd=ROOT, capture_output=True, text=True, timeout=900,
                         env=dict(os.environ))
    info = None
    for line in pre.stdout.splitlines():
        if line.startswith('PREFLIGHT '):
            info = json.loads(line[10:])
    if info is None:
        print('HARNESS-ERROR property=%s cannot load harness (does the code still have the expected shape?)\n%s'
              % (pid, pre.stderr[-3000:]))
        sys.exit(2)
    lemmas, prop, preflight = info['lemmas'], info['prop'], info['preflight']
    if a.only:
        only = a.only.split(',')
        lemmas = [l for l in lemmas if l['name'] in only]

    jobs = []
    for lem in lemmas:
        if tier not in lem.get('tiers', ['quick', 'thorough']):
            continue
        cases = lem.get('cases', {}).get(tier) or lem.get('cases', {}).get('quick') or [dict(id='all', pre=[])]
        for c in cases:
            to = c.get('timeout') or lem['timeout'][tier]
            jobs.append((lem, c, to))
    # longest first
    jobs.sort(key=lambda j: -j[2])
    results = []

    def do(job):
        lem, c, to = job
        r = run_worker(['--module', modname, '--lemma', lem['name'], '--case', str(c['id']), '--tier', tier],
                       wall_timeout=to * 3 + 180)
        r.setdefault('lemma', lem['name'])
        r.setdefault('case', str(c['id']))
        r.setdefault('engine', lem['engine'])
        return lem, c, r

    with cf.ThreadPoolExecutor(max_workers=a.jobs) as ex:
        for lem, c, r in ex.map(do, jobs):
            results.append((lem, c, r))

    known = load_known(pid)
    violations, known_hits, errors, inconclusive = [], {}, [], []
    no_ev = bool(a.only) or os.environ.get('VERIF_NO_EVIDENCE') == '1'
    replay_root = os.path.join(ROOT, 'evidence', 'replays', pid) if not no_ev else os.path.join(ROOT, '.scratch', 'replays', '%s_%d' % (pid, os.getpid()))
    shutil.rmtree(replay_root, ignore_errors=True)
    n_replay = 0
    samples = []
    seen_sig = set()
    for lem, c, r in results:
        v = r.get('verdict')
        tag = '%s/%s' % (lem['name'], c['id'])
        if r.get('reach', {}).get('witness') and len(samples) < 12:
            samples.append(dict(lemma=tag, kind='reachability witness (input that meets every pre-condition and reaches the post-condition)',
                                input=r['reach']['witness']))
        if r.get('samples'):
            samples.extend(r['samples'][:3])
        if v in ('error', 'pre_unsat', 'vacuous'):
            errors.append((tag, v, r.get('detail', '')))
        elif v == 'unknown':
            inconclusive.append(tag)
        elif v == 'refuted':
            if not lem.get('replay'):
                errors.append((tag, 'no-replayer', r.get('detail', '')))
                continue
            n_replay += 1
            rdir = os.path.join(replay_root, str(n_replay))
            os.makedirs(rdir, exist_ok=True)
            args = dict(cex=r.get('cex'), case=c, lemma=lem['name'], detail=r.get('detail', ''))
            json.dump(dict(property=pid, replay=lem['replay'], args=args, lemma=tag, engine=lem['engine'],
                           solver_detail=r.get('detail', ''), traceback=r.get('traceback', '')),
                      open(os.path.join(rdir, 'replay.json'), 'w'), indent=1)
            with open(os.path.join(rdir, 'replay.sh'), 'w') as f:
                f.write('#!/bin/sh\ncd %s && bin/check %s --replay %s\n' % (ROOT, pid, rdir))
            os.chmod(os.path.join(rdir, 'replay.sh'), 0o755)
            rr = run_worker(['--replay', lem['replay'], '--args', json.dumps(args), '--outdir', rdir], 900)
            r['replay'] = rr
            json.dump(rr, open(os.path.join(rdir, 'result.json'), 'w'), indent=1)
            if not rr.get('reproduced'):
                errors.append((tag, 'counterexample did not reproduce on the real code',
                               json.dumps(dict(cex=r.get('cex'), detail=r.get('detail'), replay=rr))[:3000]))
                continue
            sig = rr.get('signature', tag)
            samples.append(dict(lemma=tag, kind='counterexample (replayed on real code)', input=r.get('cex'), signature=sig))
            hit = [e for e in known if e.get('status') == 'known' and fnmatch.fnmatchcase(sig, e['signature'])]
            if hit:
                known_hits.setdefault(hit[0]['signature'], (hit[0], rdir))
            elif sig not in seen_sig:
                seen_sig.add(sig)
                violations.append((tag, sig, rdir, rr.get('what', '')))

    wall = time.time() - t_start
    # ---------------- evidence
    lem_rows = []
    paths = confirmed_paths = queries = 0
    solver_s = 0.0
    discharged = obligations = 0
    for lem, c, r in results:
        obligations += 1
        if r.get('verdict') == 'confirmed' or r.get('verdict') == 'unsat':
            discharged += 1
        ps = r.get('path_status', {})
        paths += r.get('paths', 0) + r.get('reach', {}).get('paths', 0)
        confirmed_paths += ps.get('confirmed', 0) + ps.get('refuted', 0) + r.get('nontrivial', 0)
        queries += r.get('solver_calls', 0)
        solver_s += r.get('solver_s', 0.0)
        lem_rows.append(dict(lemma=lem['name'], case=str(c['id']), engine=lem['engine'], verdict=r.get('verdict'),
                             paths=r.get('paths', 0), path_status=ps, solver_calls=r.get('solver_calls', 0),
                             solver_s=r.get('solver_s', 0.0), wall_s=r.get('total_wall_s', r.get('wall_s')),
                             reach=r.get('reach', {}).get('verdict'), pre=c.get('pre', []),
                             detail=(r.get('detail') or '')[:300]))
    ev = dict(
        property_id=pid, tier=tier, seed=seed, level='model_checking',
        coverage=dict(
            evaluations=paths + queries,
            distinct_nontrivial=confirmed_paths,
            rule='evaluations = symbolic execution paths explored by CrossHair (each a distinct path condition over the '
                 'symbolic inputs, decided feasible by z3) + SMT queries issued; distinct_nontrivial = paths that satisfied '
                 'every pre-condition, ran the real repository code to completion and had the post-condition decided by z3 '
                 '(CONFIRMED or REFUTED path verdicts; E2: satisfiable validation points + discharged queries); paths pruned '
                 'by a pre-condition or aborted are excluded',
            samples=samples[:20] or [dict(note='no witness captured')],
            obligations=obligations, discharged=discharged,
            checker_cmd='bin/check %s --tier %s' % (pid, tier),
            trusted_base=prop.get('trusted', []) + ['CrossHair 0.0.110 symbolic semantics of CPython', 'z3 5.1.0'],
            exhaustive=False,
            functions_encoded=prop.get('functions', []),
            bounds=prop.get('bounds', {}).get(tier, prop.get('bounds', {})),
            outside_claim=prop.get('outside', []),
            lemmas=lem_rows,
            inconclusive=inconclusive,
            solver_queries=queries, solver_time_s=round(solver_s, 2), paths_explored=paths,
            preflight=preflight,
            explanation='Bounded symbolic execution of the real functions (CrossHair+z3) per lemma; verdict "confirmed" = every '
                        'feasible path within the pre-conditions explored and post-condition valid; "unknown" = budget '
                        'exhausted (inconclusive, not a pass of that lemma); counterexamples are replayed on the real code.',
            known_findings_hit=[k for k in known_hits],
        ),
        assumptions=prop.get('assumptions', []),
        wall_s=round(wall, 1),
        violations=len(violations),
    )
    if not no_ev:
        os.makedirs(os.path.join(ROOT, 'evidence', 'by_tier'), exist_ok=True)
        # the last run of the *other* tier is summarised (its full evidence stays in evidence/by_tier/)
        other = os.path.join(ROOT, 'evidence', 'by_tier', '%s.%s.json' % (pid, 'thorough' if tier == 'quick' else 'quick'))
        if os.path.exists(other):
            try:
                o = json.load(open(other))
                ev['coverage']['other_tier_last_run'] = dict(
                    tier=o['tier'], file=os.path.relpath(other, ROOT), obligations=o['coverage'].get('obligations'),
                    discharged=o['coverage'].get('discharged'), inconclusive=len(o['coverage'].get('inconclusive', [])),
                    violations=o.get('violations'), wall_s=o.get('wall_s'), paths_explored=o['coverage'].get('paths_explored'),
                    solver_queries=o['coverage'].get('solver_queries'), finished_at=o.get('finished_at'))
            except Exception:
                pass
        ev['finished_at'] = time.strftime('%Y-%m-%dT%H:%M:%SZ', time.gmtime())
        for dst in (os.path.join(ROOT, 'evidence', pid + '.json'), os.path.join(ROOT, 'evidence', 'by_tier', '%s.%s.json' % (pid, tier))):
            tmp = dst + '.tmp'
            json.dump(ev, open(tmp, 'w'), indent=1)
            os.replace(tmp, dst)

    # ---------------- report
    for row in lem_rows:
        print('LEMMA %s/%s engine=%s verdict=%s paths=%s solver_calls=%s wall=%ss %s' % (
            row['lemma'], row['case'], row['engine'], row['verdict'], row['paths'], row['solver_calls'], row['wall_s'],
            ('' if row['verdict'] in ('confirmed', 'unsat') else row['detail'][:160].replace('\n', ' '))))
    for t in inconclusive:
        print('INCONCLUSIVE lemma=%s' % t)
    for sig, (e, rdir) in known_hits.items():
        print('KNOWN-FINDING: property=%s %s [signature=%s replay=%s]' % (pid, e.get('what', ''), sig, rdir))
    for e in known:
        if e.get('status') == 'known' and e['signature'] not in known_hits:
            print('NOTE known finding not re-observed this run: %s' % e['signature'])
    for tag, sig, rdir, what in violations:
        print('VIOLATION property=%s replay=%s' % (pid, rdir))
        print('  lemma=%s signature=%s %s' % (tag, sig, what))
    for tag, kind, detail in errors:
        print('HARNESS-ERROR property=%s lemma=%s %s\n   %s' % (pid, tag, kind, str(detail)[:1500].replace('\n', '\n   ')))
    print('SUMMARY property=%s tier=%s obligations=%d discharged=%d inconclusive=%d violations=%d known=%d errors=%d wall=%.0fs'
          % (pid, tier, obligations, discharged, len(inconclusive), len(violations), len(known_hits), len(errors), wall))
    if violations:
        sys.exit(1)
    if errors:
        sys.exit(2)
    sys.exit(0)


if __name__ == '__main__':
    main()
