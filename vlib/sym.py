"""Helpers for harnesses."""


def pick(pool, i):
    """pool[i] for a symbolic index i, forcing a fork per value so the element stays a concrete object."""
    for k in range(len(pool)):
        if i == k:
            return pool[k]
    raise IndexError(i)
