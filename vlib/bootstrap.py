#!/usr/bin/env python3
"""Create /verif/.venv: an overlay of /venv (repo's own interpreter + deps, repo
installed editable from /repo) plus crosshair-tool/z3 from the offline wheelhouse.
Idempotent; safe to call concurrently (file lock)."""
import os, subprocess, sys, fcntl

ROOT = os.path.dirname(os.path.dirname(os.path.abspath(__file__)))
VENV = os.path.join(ROOT, '.venv')
PY = os.path.join(VENV, 'bin', 'python')
WHEELS = '/opt/veriftools/wheels'
BASE_PY = '/venv/bin/python'
BASE_SITE = '/venv/lib/python3.12/site-packages'


def ok():
    if not os.path.exists(PY):
        return False
    r = subprocess.run([PY, '-c', 'import crosshair, z3, pysam, numpy, singlecellmultiomics'],
                       capture_output=True)
    return r.returncode == 0


def ensure(verbose=False):
    if ok():
        return PY
    lock = open(os.path.join(ROOT, '.venv.lock'), 'w')
    fcntl.flock(lock, fcntl.LOCK_EX)
    try:
        if ok():
            return PY
        subprocess.run(['rm', '-rf', VENV], check=True)
        subprocess.run([BASE_PY, '-m', 'venv', VENV], check=True)
        sp = os.path.join(VENV, 'lib', 'python3.12', 'site-packages')
        with open(os.path.join(sp, 'zz_overlay.pth'), 'w') as f:
            f.write("import site; site.addsitedir(%r)\n" % BASE_SITE)
        env = dict(os.environ, PIP_NO_INDEX='1')
        subprocess.run([PY, '-m', 'pip', 'install', '-q', '--no-index', '--find-links', WHEELS,
                        'crosshair-tool'], check=True, env=env,
                       stdout=None if verbose else subprocess.DEVNULL)
        if not ok():
            raise SystemExit('bootstrap: overlay venv is not usable')
        return PY
    finally:
        fcntl.flock(lock, fcntl.LOCK_UN)


if __name__ == '__main__':
    print(ensure(verbose=True))
