"""One lemma-case per process.

E1: load the harness module from its *source text* (so that extra `pre:` lines /
the vacuity twin `post: False` can be spliced into the lemma's docstring, which
CrossHair reads from source), run CrossHair on the lemma function, emit a JSON
result line `RESULT {...}` on stdout.

E2: call the lemma's `run` function (own AST->z3 translation) and emit its result.

--replay: call a replay function (real libraries, concrete values).
"""
import argparse, ast, collections, importlib, json, linecache, os, sys, time, traceback, types

ROOT = os.path.dirname(os.path.dirname(os.path.abspath(__file__)))
if ROOT not in sys.path:
    sys.path.insert(0, ROOT)


def _edit_docstring(src, fn_name, extra_pre, post_override):
    tree = ast.parse(src)
    target = None
    for node in ast.walk(tree):
        if isinstance(node, ast.FunctionDef) and node.name == fn_name:
            target = node
            break
    if target is None:
        raise SystemExit('worker: lemma function %s not found' % fn_name)
    doc = target.body[0]
    assert isinstance(doc, ast.Expr) and isinstance(doc.value, ast.Constant)
    lines = src.split('\n')
    lo, hi = doc.lineno - 1, doc.end_lineno  # [lo, hi)
    out = []
    inserted = False
    for i in range(lo, hi):
        ln = lines[i]
        st = ln.strip()
        if st.startswith('post:'):
            indent = ln[:len(ln) - len(ln.lstrip())]
            if not inserted:
                for p in extra_pre:
                    out.append('%spre: %s' % (indent, p))
                inserted = True
            if post_override is not None:
                ln = '%spost: %s' % (indent, post_override)
        out.append(ln)
    if not inserted:
        raise SystemExit('worker: no post: line in %s' % fn_name)
    return '\n'.join(lines[:lo] + out + lines[hi:])


_counter = [0]


def load_variant(modname, fn_name, extra_pre=(), post_override=None):
    path = os.path.join(ROOT, *modname.split('.')) + '.py'
    src = open(path).read()
    src = _edit_docstring(src, fn_name, list(extra_pre), post_override)
    _counter[0] += 1
    vname = modname.replace('.', '_') + '__v%d' % _counter[0]
    fname = os.path.join(ROOT, '.scratch', 'variants', vname + '.py')
    linecache.cache[fname] = (len(src), None, src.splitlines(True), fname)
    mod = types.ModuleType(vname)
    mod.__file__ = fname
    sys.modules[vname] = mod
    exec(compile(src, fname, 'exec'), mod.__dict__)
    return mod, getattr(mod, fn_name)


class Stats:
    def __init__(self):
        self.solver_calls = 0
        self.solver_s = 0.0
        self.path_status = collections.Counter()
        self.captured = []


def install_instrumentation(stats):
    import z3
    import crosshair.core as cc
    _check = z3.Solver.check

    def check(self, *a):
        t = time.perf_counter()
        try:
            return _check(self, *a)
        finally:
            stats.solver_calls += 1
            stats.solver_s += time.perf_counter() - t
    z3.Solver.check = check

    _orig_msg = cc.make_counterexample_message

    def msg(conditions, args, return_val=None):
        m = _orig_msg(conditions, args, return_val)
        try:
            reprer = cc.context_statespace().extra(cc.LazyCreationRepr)
            with cc.NoTracing():
                a = reprer.deep_realize(args)
            stats.captured.append(_jsonable(dict(a.arguments)))
        except Exception as e:  # pragma: no cover
            stats.captured.append({'__capture_error__': repr(e)})
        return m
    cc.make_counterexample_message = msg

    _attempt = cc.attempt_call

    def attempt(*a, **k):
        try:
            r = _attempt(*a, **k)
        except BaseException as e:
            stats.path_status['aborted:' + type(e).__name__] += 1
            raise
        if r.failing_precondition is not None:
            stats.path_status['pre_failed'] += 1
        elif r.verification_status is None:
            stats.path_status['ignored'] += 1
        else:
            stats.path_status[r.verification_status.name.lower()] += 1
        return r
    cc.attempt_call = attempt


def _jsonable(x):
    if isinstance(x, (bool, int, str, float)) or x is None:
        return x
    if isinstance(x, (list, tuple)):
        return [_jsonable(i) for i in x]
    if isinstance(x, dict):
        return {str(k): _jsonable(v) for k, v in x.items()}
    return repr(x)


def run_crosshair(fn, timeout, stats, keep_lru_patch=True):
    from crosshair.core_and_libs import analyze_function, run_checkables
    from crosshair.options import AnalysisOptionSet
    from crosshair.statespace import MessageType
    ctr = collections.Counter()
    opts = AnalysisOptionSet(per_condition_timeout=float(timeout), report_all=True, stats=ctr,
                             max_uninteresting_iterations=0,  # 0 = unlimited
                             per_path_timeout=max(10.0, float(timeout) ** 0.5))
    stats.captured.clear()
    t0 = time.time()
    checkables = analyze_function(fn, opts)
    if not checkables:
        return dict(verdict='error', detail='no conditions parsed for %s' % fn.__name__)
    msgs = run_checkables(checkables)
    wall = time.time() - t0
    verdict, detail = 'unknown', ''
    kinds = [m.state for m in msgs]
    bad = [m for m in msgs if m.state in (MessageType.POST_FAIL, MessageType.EXEC_ERR, MessageType.POST_ERR)]
    if bad:
        verdict = 'refuted'
        detail = '%s: %s' % (bad[0].state.name, bad[0].message)
        tb = bad[0].traceback
    elif MessageType.PRE_UNSAT in kinds:
        verdict, detail = 'pre_unsat', [m.message for m in msgs if m.state == MessageType.PRE_UNSAT][0]
    elif MessageType.SYNTAX_ERR in kinds or MessageType.IMPORT_ERR in kinds:
        verdict, detail = 'error', '; '.join(m.message for m in msgs)
    elif MessageType.CONFIRMED in kinds:
        verdict = 'confirmed'
    elif MessageType.CANNOT_CONFIRM in kinds:
        verdict = 'unknown'
        detail = '; '.join(m.message for m in msgs)
    res = dict(verdict=verdict, detail=detail[:2000], wall_s=round(wall, 2), paths=ctr.get('num_paths', 0))
    if bad:
        res['traceback'] = (tb or '')[-3000:]
        res['cex'] = stats.captured[-1] if stats.captured else None
    return res


def main():
    ap = argparse.ArgumentParser()
    ap.add_argument('--module')
    ap.add_argument('--lemma')
    ap.add_argument('--case', default='0')
    ap.add_argument('--tier', default='quick')
    ap.add_argument('--replay')
    ap.add_argument('--args')
    ap.add_argument('--outdir')
    a = ap.parse_args()
    os.environ.setdefault('SCMO_VERIF_WORKER', '1')
    try:
        seed = int(os.environ.get('VERIF_SEED', '0') or 0)
    except ValueError:
        seed = 0

    if a.replay:
        modname, fname = a.replay.split(':')
        mod = importlib.import_module(modname)
        args = json.loads(a.args)
        try:
            r = getattr(mod, fname)(args, a.outdir)
        except Exception:
            r = dict(reproduced=False, error=traceback.format_exc()[-3000:])
        print('RESULT ' + json.dumps(r))
        return

    base = importlib.import_module(a.module)
    lem = [l for l in base.LEMMAS if l['name'] == a.lemma][0]
    tier = a.tier
    cases = lem.get('cases', {}).get(tier) or lem.get('cases', {}).get('quick') or [dict(id='all', pre=[])]
    case = [c for c in cases if str(c['id']) == a.case][0]
    timeout = case.get('timeout') or lem['timeout'][tier]
    out = dict(lemma=lem['name'], case=str(case['id']), engine=lem['engine'], tier=tier, pre=case.get('pre', []))
    t0 = time.time()
    try:
        if lem['engine'] == 'E2':
            r = getattr(base, lem['run'])(tier=tier, case=case, seed=seed)
            out.update(r)
        else:
            import z3
            z3.set_param('smt.random_seed', seed % (2 ** 31))
            stats = Stats()
            install_instrumentation(stats)
            if lem.get('real_lru_cache'):
                _drop_lru_patch()
            # vacuity twin first (short budget)
            mod, fn = load_variant(a.module, lem['fn'], case.get('pre', []), 'False')
            rt = run_crosshair(fn, min(timeout, lem.get('reach_timeout', 60)), stats)
            out['reach'] = dict(verdict=rt['verdict'], paths=rt['paths'], wall_s=rt['wall_s'],
                                witness=rt.get('cex'), detail=rt.get('detail', '')[:300])
            reach_calls, reach_s = stats.solver_calls, stats.solver_s
            status_reach = dict(stats.path_status)
            stats.path_status.clear()
            mod, fn = load_variant(a.module, lem['fn'], case.get('pre', []), None)
            r = run_crosshair(fn, timeout, stats)
            out.update(r)
            out['solver_calls'] = stats.solver_calls - reach_calls
            out['solver_s'] = round(stats.solver_s - reach_s, 3)
            out['path_status'] = dict(stats.path_status)
            out['path_status_reach'] = status_reach
            odd = {k: v for k, v in stats.path_status.items() if k not in ('confirmed', 'pre_failed', 'refuted')}
            if odd and out['verdict'] == 'confirmed':
                # CrossHair dropped paths (IgnoreAttempt / nested-contract failures / unsupported operations): exhaustion cannot be claimed
                out['verdict'] = 'unknown'
                out['detail'] = 'paths ignored or aborted by the engine: %r' % (odd,)
            if rt['verdict'] != 'refuted' and out['verdict'] == 'confirmed':
                # vacuous: nothing reaches the post-condition
                out['verdict'] = 'vacuous'
    except SystemExit:
        raise
    except BaseException:
        out['verdict'] = 'error'
        out['detail'] = traceback.format_exc()[-3000:]
    out['total_wall_s'] = round(time.time() - t0, 2)
    print('RESULT ' + json.dumps(out))


def _drop_lru_patch():
    import functools
    import crosshair.core as cc
    import crosshair.core_and_libs  # noqa: registers patches
    target = functools._lru_cache_wrapper.__call__
    for reg in (getattr(cc, '_PATCH_REGISTRATIONS', {}),):
        for k in list(reg.keys()):
            if k is target or k == target:
                del reg[k]


if __name__ == '__main__':
    main()
