"""E3: cut a statement block out of a function of the live module and wrap it as a function.
Nothing is copied into /verif: the source is re-read on every run; a missing anchor is a harness error."""
import ast, inspect, textwrap


class AnchorMissing(Exception):
    pass


def _find_function(module, fname):
    src = inspect.getsource(module)
    tree = ast.parse(src)
    for node in ast.walk(tree):
        if isinstance(node, ast.FunctionDef) and node.name == fname:
            return node
    raise AnchorMissing('function %s not found in %s' % (fname, module.__name__))


def cut_if(module, fname, test_src, branch='body', params=(), result=None, name='_cut', prelude=''):
    """Find `if <test_src>:` inside module.fname and return a function(params) running that branch and returning `result`."""
    fn = _find_function(module, fname)
    target = None
    for node in ast.walk(fn):
        if isinstance(node, ast.If) and ast.unparse(node.test) == test_src:
            target = node
            break
    if target is None:
        raise AnchorMissing('`if %s:` not found in %s.%s' % (test_src, module.__name__, fname))
    stmts = target.body if branch == 'body' else target.orelse
    return _wrap(module, stmts, params, result, name, prelude)


def cut_for(module, fname, iter_src_startswith, params=(), result=None, name='_cut', prelude='', include_following=0, index=0, from_stmt=None):
    """Find the first `for ... in <iter>` whose iterable source starts with the given text."""
    fn = _find_function(module, fname)
    matches = []
    for parent in ast.walk(fn):
        for field in ('body', 'orelse', 'finalbody'):
            seq = getattr(parent, field, None)
            if not isinstance(seq, list):
                continue
            for i, node in enumerate(seq):
                if isinstance(node, ast.For) and ast.unparse(node.iter).startswith(iter_src_startswith):
                    matches.append((node.lineno, seq, i))
    matches.sort(key=lambda m: m[0])      # source order
    if len(matches) > index:
        _, seq, i = matches[index]
        lo = i
        if from_stmt is not None:
            # also take the statements between `from_stmt` (e.g. a counter initialisation) and the loop: set-up code that belongs to the loop
            for j in range(i - 1, -1, -1):
                if ast.unparse(seq[j]).strip() == from_stmt:
                    lo = j
                    break
            else:
                raise AnchorMissing('statement `%s` not found before the loop in %s.%s' % (from_stmt, module.__name__, fname))
        return _wrap(module, seq[lo:i + 1 + include_following], params, result, name, prelude)
    raise AnchorMissing('`for ... in %s...` not found in %s.%s' % (iter_src_startswith, module.__name__, fname))


def _wrap(module, stmts, params, result, name, prelude):
    body = list(ast.parse(textwrap.dedent(prelude)).body) if prelude else []
    body += stmts
    if result is not None:
        body.append(ast.Return(ast.parse(result, mode='eval').body))
    fdef = ast.FunctionDef(name=name, args=ast.arguments(posonlyargs=[], args=[ast.arg(arg=p) for p in params], kwonlyargs=[],
                                                         kw_defaults=[], defaults=[]), body=body, decorator_list=[], type_params=[])
    mod = ast.Module(body=[fdef], type_ignores=[])
    ast.fix_missing_locations(mod)
    ns = dict(vars(module))
    exec(compile(mod, '<astcut:%s.%s>' % (module.__name__, name), 'exec'), ns)
    f = ns[name]
    f.__cut_source__ = ast.unparse(mod)
    return f


def cut_main(module, from_stmt, params=(), result=None, name='_cut_main', prelude=''):
    """Cut the tail of the module's `if __name__ == '__main__':` block, starting at the statement whose source is `from_stmt`
    (the command-line driver loop), and wrap it as a function."""
    tree = ast.parse(inspect.getsource(module))
    for node in tree.body:
        if isinstance(node, ast.If) and ast.unparse(node.test) == "__name__ == '__main__'":
            for j, st in enumerate(node.body):
                if ast.unparse(st).strip() == from_stmt:
                    return _wrap(module, node.body[j:], params, result, name, prelude)
            raise AnchorMissing('statement `%s` not found in the __main__ block of %s' % (from_stmt, module.__name__))
    raise AnchorMissing('no __main__ block in %s' % module.__name__)
