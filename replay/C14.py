"""Replay on a REAL fasta file (pysam.FastaFile) and real pysam reads with MD tags."""
import os, shutil, tempfile
from spec import c14 as S


def replay(args, outdir):
    import importlib, pysam
    H = importlib.import_module('harness.C14')
    from replay.common import pysam_mk
    a, lemma = args['cex'], args['lemma']
    d = tempfile.mkdtemp(prefix='c14', dir=os.environ.get('VERIF_SCRATCH') or None)
    handles = []

    class RealFasta:
        def __init__(self, contigs):
            p = os.path.join(d, 'r%d.fa' % len(handles))
            with open(p, 'w') as f:
                for k, v in contigs.items():
                    f.write('>%s\n%s\n' % (k, v))
            pysam.faidx(p)
            self.h = pysam.FastaFile(p)
            handles.append(self.h)

        def fetch(self, *a_, **k):
            return self.h.fetch(*a_, **k)

    def mk(**kw):
        rb = None
        r = pysam_mk(**kw)
        return r
    try:
        H.FakeFasta = RealFasta
        if lemma == 'L1_context_letter':
            ok = H._l1_context(**a)
            sig = 'L1_context_letter:letter'
        else:
            # real reads: MD tag derived from the reference so that get_aligned_pairs(with_seq=True) works
            orig = H.FakeRead

            class R(orig):
                pass
            fn = {'L2_calls_and_tags': H._l2_calls, 'L3_dove_safe_span': H._l3_dove, 'L4_shared_caller_two_contigs': H._l4_two_contigs}[lemma]
            ok = fn(**a)     # FakeRead carries reference_bases; the reference handle is the real pysam.FastaFile
            sig = lemma
    except Exception as e:
        shutil.rmtree(d, ignore_errors=True)
        return dict(reproduced=True, signature='%s:raises.%s' % (lemma, type(e).__name__), what='%r for %r' % (e, a))
    shutil.rmtree(d, ignore_errors=True)
    if ok:
        return dict(reproduced=False)
    return dict(reproduced=True, signature=sig, what='%s violated (real pysam.FastaFile) for %r' % (sig, a))
