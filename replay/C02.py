def replay(args, outdir):
    import importlib, io, contextlib
    from singlecellmultiomics.fastqProcessing.fastqIterator import FastqRecord
    import singlecellmultiomics.modularDemultiplexer.baseDemultiplexMethods as BDM
    from singlecellmultiomics.modularDemultiplexer.demultiplexingStrategyLoader import DemultiplexingStrategyLoader
    from stubs.stubparser import StubBarcodeParser
    from spec import layouts as S
    H = importlib.import_module('harness.C02')   # only for the concrete mates / names (no patching of strategy code)
    a, lemma = args['cex'], args['lemma']
    parser = StubBarcodeParser()
    parser.correct = S.corrected
    with contextlib.redirect_stdout(io.StringIO()):
        loader = DemultiplexingStrategyLoader(parser, indexParser=parser, indexFileAlias='idx')
    strats = {s.shortName: s for s in loader.demultiplexingStrategies}
    if lemma == 'L1_layout':
        name = H.FIXED[a['si']]
        recs = H._recs(a['mate'], a['seq'], a['nm'])
        parser.min_len = sum(n for (_, _, n) in S.LAYOUTS[name]['bc'])
    else:
        name, recs = H.content_case(a)
    if lemma != 'L1_layout':
        parser.verdicts = dict(H.PARSER.verdicts)
    try:
        clause = S.layout_clause(strats[name], recs, BDM.fastqHeaderSafeQualitiesToPhred)
    except BDM.NonMultiplexable:
        clause = None      # a rejected pair is outside C02
    except Exception as e:
        clause = 'raises.' + type(e).__name__
    if clause is None:
        return dict(reproduced=False)
    return dict(reproduced=True, signature='%s:%s:%s' % (lemma, name, clause),
                what='%s %s for mates %r' % (name, clause, [(r.sequence, r.qual) for r in recs]))
