from spec import c17 as S


def replay(args, outdir):
    import singlecellmultiomics.bamProcessing.bamBinCounts as B
    from singlecellmultiomics.utils.binning import bp_chunked
    a, lemma = args['cex'], args['lemma']
    if lemma == 'L1_fill_range':
        clause = S.check_fill_range(B.fill_range, a['start'], a['span'], a['step'])
        desc = 'fill_range(%d,%d,%d)' % (a['start'], a['start'] + a['span'], a['step'])
    elif lemma == 'L5_local_bin_size_unbounded':
        # concrete stretch / bin size from the solver: run the real function on one blacklist-free region of that length
        st = a.get('start', 0) - a.get('current', 0)
        bsz = a.get('bin_size', 1)
        if st > 5_000_000:
            return dict(reproduced=False, note='stretch too long to enumerate the bins concretely')
        try:
            clause = S.check_tiling(B.blacklisted_binning, 0, st, bsz, [], None)
        except Exception as e:
            clause = 'raises.' + type(e).__name__
        desc = 'blacklisted_binning(0,%d,bin_size=%d)' % (st, bsz)
    elif lemma == 'L6_bp_chunked':
        clause = S.check_bp_chunked(bp_chunked, [a['z0'], a['z1'], a['z2'], a['z3']][:a['n']], a['bp'])
        desc = 'bp_chunked %r' % a
    else:
        bl = [(a['a0'], a['a1']), (a['b0'], a['b1'])][:a['nb']]
        F = a.get('F') if lemma == 'L4_fetch_windows' else None
        clause = S.check_tiling(B.blacklisted_binning, a['st'], a['L'], a['b'], bl, F)
        desc = 'blacklisted_binning(%d,%d,bin_size=%d,blacklist=%r,fragment_size=%r) -> %r' % (
            a['st'], a['st'] + a['L'], a['b'], bl, F, list(B.blacklisted_binning(a['st'], a['st'] + a['L'], a['b'], blacklist=list(bl), fragment_size=F)))
    if clause is None:
        return dict(reproduced=False)
    return dict(reproduced=True, signature='%s:%s' % (lemma, clause), what='%s: %s' % (clause, desc))
