from spec import c17 as S


def replay(args, outdir):
    import singlecellmultiomics.bamProcessing.bamBinCounts as B
    from singlecellmultiomics.utils.binning import bp_chunked
    a, lemma = args['cex'], args['lemma']
    if lemma == 'L1_fill_range':
        clause = S.check_fill_range(B.fill_range, a['start'], a['span'], a['step'])
        desc = 'fill_range(%d,%d,%d)' % (a['start'], a['start'] + a['span'], a['step'])
    elif lemma == 'L6_bp_chunked':
        clause = S.check_bp_chunked(bp_chunked, [a['z0'], a['z1'], a['z2'], a['z3']][:a['n']], a['bp'])
        desc = 'bp_chunked %r' % a
    else:
        bl = [(a['a0'], a['a1']), (a['b0'], a['b1'])][:a['nb']]
        F = a.get('F') if lemma == 'L4_fetch_windows' else None
        clause = S.check_tiling(B.blacklisted_binning, a['st'], a['L'], a['b'], bl, F)
        desc = 'blacklisted_binning(%d,%d,bin_size=%d,blacklist=%r,fragment_size=%r) -> %r' % (
            a['st'], a['st'] + a['L'], a['b'], bl, F, list(B.blacklisted_binning(a['st'], a['st'] + a['L'], a['b'], blacklist=list(bl), fragment_size=F)))
    if clause is None:
        return dict(reproduced=False)
    return dict(reproduced=True, signature='%s:%s' % (lemma, clause), what='%s: %s' % (clause, desc))
