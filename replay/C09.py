from replay.common import pysam_mk, result
from spec import c09 as S

_MAP = {
    'L1_nla_site': lambda a: S.check_nla(pysam_mk, a['X'], a['c'], a['rev'], a['motif'], a['inv'], a['chk'], a['nocig']),
    'L1_nla_site_paired': lambda a: S.check_nla(pysam_mk, a['X'], a['c'], a['rev'], a['motif'], False, True, False, with_r2=True),
    'L2_cycle_shift': lambda a: S.check_nla_shift(pysam_mk, a['X'], a['c'], a['rev'], a['allow'], a['first']),
    'L2_cycle_shift_reject': lambda a: S.check_nla_shift_reject(pysam_mk, a['X'], a['rev'], a['tail']),
    'L3_chic_site_mirror': lambda a: S.check_chic(pysam_mk, a['P'], a['c'], a['rev'], a['trimmed'], a['inv'], a['Lam']),
    'L3_chic_orientation': lambda a: S.check_chic_orientation(pysam_mk, a['P'], a['rev'], a['r2rev'], a['r2unmapped']),
    'L4_nla_mirror': lambda a: S.check_nla_mirror(pysam_mk, a['X'], a['c'], a['rev'], a['Lam']),
}


def replay(args, outdir):
    cex = args['cex']
    clause = _MAP[args['lemma']](cex)
    return result(clause, args['lemma'], 'input=%r' % (cex,))
