from replay.common import pysam_mk, result
from spec import c09 as S

_TMP = []


def real_ref(base, window):
    """A real indexed FASTA read through pysam.FastaFile when the coordinates allow a file of reasonable size."""
    import os, tempfile, pysam
    if base < -7 or base > 2_000_000 or any(ch not in 'ACGTNacgtn' for ch in window):
        return S.WindowFasta(base, window)
    d = tempfile.mkdtemp(prefix='c09ref_', dir=os.environ.get('VERIF_SCRATCH') or None)
    _TMP.append(d)
    fa = os.path.join(d, 'ref.fa')
    seq = ('A' * base + window if base >= 0 else window[-base:]) + 'A' * 32
    with open(fa, 'w') as h:
        h.write('>%s\n' % S.CONTIG)
        for i in range(0, len(seq), 60):
            h.write(seq[i:i + 60] + '\n')
    pysam.faidx(fa)
    return pysam.FastaFile(fa)


_MAP = {
    'L1_nla_site': lambda a: S.check_nla(pysam_mk, a['X'], a['c'], a['rev'], a['motif'], a['inv'], a['chk'], a['nocig']),
    'L1_nla_site_paired': lambda a: S.check_nla(pysam_mk, a['X'], a['c'], a['rev'], a['motif'], False, True, False, with_r2=True),
    'L2_cycle_shift': lambda a: S.check_nla_shift(pysam_mk, a['X'], a['c'], a['rev'], a['allow'], a['first']),
    'L2_cycle_shift_reject': lambda a: S.check_nla_shift_reject(pysam_mk, a['X'], a['rev'], a['tail']),
    'L3_chic_site_mirror': lambda a: S.check_chic(pysam_mk, a['P'], a['c'], a['rev'], a['trimmed'], a['inv'], a['Lam']),
    'L3_chic_orientation': lambda a: S.check_chic_orientation(pysam_mk, a['P'], a['rev'], a['r2rev'], a['r2unmapped']),
    'L5b_no_overhang_softmasked': lambda a: S.check_nla_no_overhang(pysam_mk, real_ref, a['S'], a['rev'], 'A' * a['j'] + ''.join((ch.lower() if (a['mask'] >> i) & 1 else ch) for i, ch in enumerate('CATG')) + 'A' * (3 - a['j'])),
    # real str.upper runs here; a window with lower-case letters is judged by the case-insensitive oracle
    'L5_no_overhang': lambda a: S.check_nla_no_overhang(pysam_mk, real_ref, a['S'], a['rev'], a['window'], case_free=(a['window'].upper() == a['window'])),
    'L4_nla_mirror': lambda a: S.check_nla_mirror(pysam_mk, a['X'], a['c'], a['rev'], a['Lam']),
}


def replay(args, outdir):
    cex = args['cex']
    clause = _MAP[args['lemma']](cex)
    import shutil
    for d in _TMP:
        shutil.rmtree(d, ignore_errors=True)
    return result(clause, args['lemma'], 'input=%r' % (cex,))
