"""Replay with REAL pysam.AlignedSegment pseudo-reads and source reads, real pysam.FastaFile reference."""
import os, shutil, tempfile


def replay(args, outdir):
    import importlib, pysam
    import singlecellmultiomics.molecule.molecule as MM
    H = importlib.import_module('harness.C15')
    from replay.common import pysam_mk, HEADER
    a, lemma = args['cex'], args['lemma']
    MM.pysam = pysam
    H.FakeRead = pysam_mk

    class T:
        header = HEADER
    H._Target = T
    d = tempfile.mkdtemp(prefix='c15', dir=os.environ.get('VERIF_SCRATCH') or None)
    try:
        p = os.path.join(d, 'r.fa')
        open(p, 'w').write('>chr1\n%s\n' % H.S.REF)
        pysam.faidx(p)
        fa = pysam.FastaFile(p)
        H.FakeFasta = lambda contigs: fa
        fn = {'L1_blocks_cigar': H._l1_blocks, 'L2_pseudo_reads': H._l2_pseudo_reads, 'L3_call_structure': H._l3_call, 'L3b_call_order_independent': H._l3b_call_order, 'L4_md_roundtrip': H._l4_md}[lemma]
        try:
            ok = fn(**a)
        except Exception as e:
            return dict(reproduced=True, signature='%s:raises.%s' % (lemma, type(e).__name__), what='%r for %r' % (e, a))
    finally:
        shutil.rmtree(d, ignore_errors=True)
    if ok:
        return dict(reproduced=False)
    return dict(reproduced=True, signature=lemma, what='%s violated with real pysam records for %r' % (lemma, a))
