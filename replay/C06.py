"""Replay: the same lemma bodies on REAL pysam.AlignedSegment objects."""
from replay.common import pysam_mk


def replay(args, outdir):
    import importlib
    H = importlib.import_module('harness.C06')
    H.FakeRead = pysam_mk
    a, lemma = args['cex'], args['lemma']
    fn = {'L1_nla_pairwise': H._l1_nla_pair, 'L2_chic_pairwise': H._l2_chic_pair, 'L2_plain_pairwise': H._l2_plain_pair,
          'L3_grouping': H._l3_grouping, 'L3b_grouping_across_contigs': H._l3b_two_contigs, 'L4_duplicate_rank_tags': H._l4_tags, 'L5_fragment_cap': H._l5_cap, 'L4b_tags_of_rejected_molecule': H._l4b_tags_rejected}[lemma]
    try:
        ok = fn(**a)
    except Exception as e:
        return dict(reproduced=True, signature='%s:raises.%s' % (lemma, type(e).__name__), what='%r for %r' % (e, a))
    if ok:
        return dict(reproduced=False)
    return dict(reproduced=True, signature=lemma, what='%s violated on real pysam reads for %r' % (lemma, a))
