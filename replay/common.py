"""Replay helpers: build REAL pysam objects from the stub-level description."""
import pysam
from stubs.fakeread import FakeRead

HEADER = pysam.AlignmentHeader.from_dict({'HD': {'VN': '1.6', 'SO': 'coordinate'},
                                          'SQ': [{'SN': 'chr1', 'LN': 2 ** 29 - 1}, {'SN': 'chr2', 'LN': 2 ** 29 - 1},
                                                 {'SN': 'chr3', 'LN': 2 ** 29 - 1}]})


def pysam_mk(**kw):
    """Same keyword interface as FakeRead(...), returns a real pysam.AlignedSegment."""
    return FakeRead(**kw).to_pysam(HEADER)


def result(clause, lemma, extra=''):
    if clause is None:
        return dict(reproduced=False, note='real code satisfies the clause for these concrete values')
    return dict(reproduced=True, signature='%s:%s' % (lemma, clause), what='%s violated (%s) %s' % (lemma, clause, extra))
