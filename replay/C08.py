from spec import tagging as S


def replay(args, outdir):
    if args['lemma'] == 'L5_job_bookkeeping':
        a, lemma = args['cex'], args['lemma']
        import singlecellmultiomics.universalBamTagger.tagging as TG
        clause = S.check_tagging_job(TG, [a['c0'], a['c1'], a['c2']][:a['n']], [a['v0'], a['v1'], a['v2'], a['v3']])
        desc = 'molecules per task %r validity %r' % ([a['c0'], a['c1'], a['c2']][:a['n']], [a['v0'], a['v1'], a['v2'], a['v3']])
        if clause is None:
            return dict(reproduced=False)
        return dict(reproduced=True, signature='%s:%s' % (lemma, clause), what='%s: %s' % (clause, desc))
    from vlib import astcut
    import singlecellmultiomics.universalBamTagger.bamtagmultiome as BT
    import singlecellmultiomics.universalBamTagger.tagging as TG
    import singlecellmultiomics.bamProcessing.bamBinCounts as B
    a, lemma = args['cex'], args['lemma']
    if lemma == 'L1_tiling_ownership':
        raw = astcut.cut_if(BT, 'tag_multiome_multi_processing', 'one_contig_per_process', 'orelse',
                            params=('input_bam_path', 'bp_per_segment', 'fragment_size', 'bp_per_job', 'contig_whitelist', 'blacklist_path'), result='job_gen')

        def blk(cs, b, F, bpj, w):
            jg = raw(cs, b, F, bpj, w, None)
            tasks = TG.generate_tasks(input_bam_path='in.bam', temp_folder='tmp', job_gen=jg, iteration_args={}, additional_args={}, max_time_per_segment=None)
            return [[(d['contig'], d['start'], d['end'], d['fetch_start'], d['fetch_end']) for d in al] for _, al in tasks]
        sizes = [('c0', a['L0']), ('c1', a['L1'])]
        clause = S.check_region_jobs(blk, sizes, a['b'], a['bpj'], a['F'], None)
        desc = 'sizes=%r bin=%d bp_per_job=%d fragment_size=%d -> %r' % (sizes, a['b'], a['bpj'], a['F'], blk(sizes, a['b'], a['F'], a['bpj'], None))
    elif lemma == 'L2_ownership_filter':
        specs = [((None if c < 0 else c), s) for c, s in zip([a['c0'], a['c1'], a['c2']], [a['s0'], a['s1'], a['s2']])][:a['n']]
        clause = S.check_tagging_task(TG.run_tagging_task, specs, (a['start'], a['end'], a['fs'], a['fe']))
        desc = 'molecules (contig idx, site) in iteration order %r, region start=%d end=%d fetch=%d..%d' % (specs, a['start'], a['end'], a['fs'], a['fe'])
    else:
        clause = S.check_fetch_complete(B.blacklisted_binning, a['L'], a['b'], a['F'], a['site'], a['rs'], a['re'])
        desc = repr(a)
    if clause is None:
        return dict(reproduced=False)
    return dict(reproduced=True, signature='%s:%s' % (lemma, clause), what='%s: %s' % (clause, desc))


def replay_break(args, outdir):
    import importlib
    from replay.common import pysam_mk
    H = importlib.import_module('harness.C08')
    import stubs.fakeread as FR
    a = args['cex']
    orig = FR.FakeRead
    FR.FakeRead = pysam_mk     # the lemma body imports FakeRead from stubs.fakeread at call time
    try:
        ok = H._l3_break(**a)
    except Exception as e:
        FR.FakeRead = orig
        return dict(reproduced=True, signature='L3_break_criterion:raises.%s' % type(e).__name__, what='%r for %r' % (e, a))
    FR.FakeRead = orig
    if ok:
        return dict(reproduced=False)
    return dict(reproduced=True, signature='L3_break_criterion:owned_molecule_lost', what='owned molecule not written (real pysam reads) for %r' % (a,))
