"""Replay with the REAL numpy and the real functools.lru_cache (no shim)."""
from spec import c16 as S
from replay.common import pysam_mk


def replay(args, outdir):
    import importlib
    F = importlib.import_module('singlecellmultiomics.features.features')
    a, lemma = args['cex'], args['lemma']
    OPT = ['bdbnb', 'nb', 'optim', 'fallback']

    def mk(n, coords, strands):
        return [(coords[i][0], coords[i][0] + coords[i][1], 'f%d' % i, S.STRANDS[strands[i]], None) for i in range(n)]

    def cont(feats):
        fc = F.FeatureContainer()
        for f in feats:
            fc.addFeature('chr1', f[0], f[1], f[2], strand=f[3], data=f[4])
        return fc
    F.FeatureContainer.findFeaturesAt.cache_clear()
    clause, desc = None, repr(a)
    try:
        if lemma == 'L1_point_query':
            feats = mk(a['n'], [(a['s0'], a['l0']), (a['s1'], a['l1']), (a['s2'], a['l2'])], [a['st0'], a['st1'], a['st2']])
            fc = cont(feats)
            q = S.STRANDS[a['qs']]
            got = fc._findFeaturesAt('chr1', a['x'], strand=q, optim=OPT[a['opt']])
            if S.names(got) != S.at(feats, a['x'], q):
                clause = 'point.%s' % OPT[a['opt']]
                desc = 'features %r query %d strand %r optim %s -> %r expected %r' % (feats, a['x'], q, OPT[a['opt']], S.names(got), S.at(feats, a['x'], q))
        elif lemma == 'L2_range_query':
            feats = mk(a['n'], [(a['s0'], a['l0']), (a['s1'], a['l1'])], [a['st0'], a['st1']])
            fc = cont(feats); fc.sort()
            q = S.STRANDS[a['qs']]
            got = fc.findFeaturesBetween('chr1', a['a'], a['a'] + a['w'], strand=q)
            if S.names(got) != S.between(feats, a['a'], a['a'] + a['w'], q):
                clause = 'range'
                desc = 'features %r range [%d,%d] strand %r -> %r expected %r' % (feats, a['a'], a['a'] + a['w'], q, S.names(got), S.between(feats, a['a'], a['a'] + a['w'], q))
        elif lemma == 'L2_read_annotation':
            feats = mk(a['n'], [(a['s0'], a['l0']), (a['s1'], a['l1'])], [a['st0'], a['st1']])
            fc = cont(feats); fc.sort()
            q = S.STRANDS[a['qs']]
            cig = [(0, a['b1'])] + ([(3, a['gap']), (0, a['b2'])] if a['gap'] > 0 else [])
            qlen = a['b1'] + (a['b2'] if a['gap'] > 0 else 0)
            read = pysam_mk(reference_name='chr1', reference_start=a['r'], cigartuples=cig, seq='A' * qlen, qual='I' * qlen)
            got = fc.findFeaturesAtPysamAlign(read, strand=q, method=a['method'])
            exp = set()
            for (bs, be) in read.get_blocks():
                if a['method'] == 0:
                    for pos in range(bs, be):
                        exp.update(S.at(feats, pos, q))
                else:
                    exp.update(S.between(feats, bs, be - 1, q))
            if sorted(set(S.names(got))) != sorted(exp):
                clause = 'read.method%d' % a['method']
        elif lemma == 'L2b_molecule_annotation':
            from singlecellmultiomics.molecule.featureannotatedmolecule import FeatureAnnotatedMolecule
            from singlecellmultiomics.fragment import Fragment
            SP, LP = list(range(6, 15)), [0, 1, 3, 6]
            feats = [(f[0], f[1], f[2], f[3], f[2]) for f in mk(a['n'], [(SP[a['s0']], LP[a['l0']]), (SP[a['s1']], LP[a['l1']])], [a['st0'], a['st1']])]
            fc = cont(feats); fc.sort()
            cig = [(0, a['b1'])] + ([(3, a['gap']), (0, a['b2'])] if a['gap'] > 0 else [])
            qlen = a['b1'] + (a['b2'] if a['gap'] > 0 else 0)
            read = pysam_mk(query_name='q', reference_name='chr1', reference_start=10, cigartuples=cig, seq='A' * qlen, qual='I' * qlen, is_reverse=a['rev'],
                            is_read1=True, tags={'SM': 'lib_1', 'RX': 'ACG'})
            mode = [None, False, True][a['stranded']]
            m = FeatureAnnotatedMolecule(Fragment([read, None], umi_hamming_distance=0), features=fc, stranded=mode)
            m.annotate(a['method'])
            q = None if mode is None else ('-' if (bool(a['rev']) != mode) else '+')
            exp = set()
            for (bs, be) in read.get_blocks():
                if a['method'] == 0:
                    exp.update(S.between(feats, bs, be - 1, q))
                else:
                    for pos in range(bs, be):
                        exp.update(S.at(feats, pos, q))
            if sorted(m.hits.keys()) != sorted(exp):
                clause = 'molecule_annotation.stranded_%s.method%d' % (mode, a['method'])
                desc = 'features %r read blocks %r rev=%r -> hits %r expected %r' % (feats, read.get_blocks(), a['rev'], sorted(m.hits.keys()), sorted(exp))
        else:
            POOL = [0, 3, 5, 8, 10]
            fc = F.FeatureContainer()
            feats = []

            def add(i, x, y):
                f = (POOL[x], POOL[y], 'f%d' % i, '+', None)
                feats.append(f); fc.addFeature('chr1', f[0], f[1], f[2], strand='+', data=None)

            phases = [(a['a0'], a['b0']), (a['a1'], a['b1'])] + ([(a['a2'], a['b2'])] if 'a2' in a else [])
            qs = (a['q0'], a['q1'])
            if a.get('early_query'):
                for qi in qs:
                    if fc.findFeaturesAt('chr1', POOL[qi]) != []:
                        clause = 'nonempty_answer_on_empty_container'
            for i, (x0, y0) in enumerate(phases):
                if a.get('other_first'):
                    fc.addFeature('chr2', 1, 2, 'g%d' % i, strand='+', data=None)
                add(i, x0, y0)
                if a['explicit_sort']:
                    fc.sort()
                if a.get('range_first'):
                    for qi in qs:
                        x = POOL[qi]
                        if clause is None and S.names(fc.findFeaturesBetween('chr1', x, x + 2)) != S.between(feats, x, x + 2, None):
                            clause = 'stale_range_query_after_add'
                for qi in qs:
                    x = POOL[qi]
                    if clause is None and S.names(fc.findFeaturesAt('chr1', x)) != S.at(feats, x, None):
                        clause = 'stale_point_query'
            if clause is None:
                for qi in qs:
                    x = POOL[qi]
                    if S.names(fc.findFeaturesBetween('chr1', x, x + 2)) != S.between(feats, x, x + 2, None):
                        clause = 'stale_range_query'
            desc = 'history add/sort/query with features %r' % (feats,)
    except Exception as e:
        clause = 'raises.' + type(e).__name__
        desc += ' ' + repr(e)
    if clause is None:
        return dict(reproduced=False)
    return dict(reproduced=True, signature='%s:%s' % (lemma, clause), what='%s: %s' % (clause, desc))
