from spec import c07 as S
from replay.common import pysam_mk


def _realise(n, flags):
    """Concrete realisation with the REAL NlaIII classes and real pysam reads: n molecules at one CATG site of one cell
    (distinct UMIs; span end short for yieldable molecules, long otherwise), then one PCR duplicate of each. The
    partition with check_eject_every=n-1 must equal the partition without ejection."""
    from singlecellmultiomics.molecule import MoleculeIterator, NlaIIIMolecule
    from singlecellmultiomics.fragment import NlaIIIFragment
    umis = ['AAA', 'CCC', 'GGG', 'TTT', 'ACG', 'CAT']
    site = 1000

    def pair(i, name, end):
        r1 = pysam_mk(query_name=name, reference_name='chr1', reference_start=site, cigartuples=[(0, 20)],
                      seq='CATG' + 'ACGTTGCAAGTCAGGT', qual='I' * 20, is_reverse=False, is_read1=True, is_read2=False,
                      is_paired=True, is_proper_pair=True, tags={'SM': 'lib_1', 'RX': umis[i], 'MX': 'NLAIII384C8U3'})
        r2 = pysam_mk(query_name=name, reference_name='chr1', reference_start=end - 20, cigartuples=[(0, 20)],
                      seq='TTGACCAGTAGGCTAGGCTA', qual='I' * 20, is_reverse=True, is_read1=False, is_read2=True,
                      is_paired=True, is_proper_pair=True, tags={'SM': 'lib_1', 'RX': umis[i], 'MX': 'NLAIII384C8U3'})
        return [r1, r2]

    def reads():
        out = []
        for i in range(n - 1):
            out.append(pair(i, 'a%d' % i, site + (100 if flags[i] else 4000)))
        out.append(pair(n - 1, 'a%d' % (n - 1), site + 5500))
        for i in range(n):
            out.append(pair(i, 'b%d' % i, site + 5600))
        return out

    def partition(cee):
        it = MoleculeIterator(reads(), molecule_class=NlaIIIMolecule, fragment_class=NlaIIIFragment,
                              check_eject_every=cee, perform_qflag=False, fragment_class_args={'umi_hamming_distance': 0})
        return sorted(tuple(sorted(f.get_R1().query_name for f in m)) for m in it)
    return partition(None), partition(n - 1)


def replay_eject(args, outdir):
    a = args['cex']
    n = a['n']
    flags = [a['f0'], a['f1'], a['f2'], a['f3'], a['f4']]
    hs = [a['h0'], a['h1'], a['h2'], a['h3'], a['h4']]
    cee = None if a['cee'] < 0 else a['cee']
    clause = S.check_eject_step(n, flags, hs, a['pooling'], cee)
    if clause is None:
        return dict(reproduced=False)
    out = dict(reproduced=True, signature='L1_eject_step:%s' % clause,
               what='MoleculeIterator ejection step: %s for yieldable flags %r, pooling %d, check_eject_every %r' % (clause, flags[:n], a['pooling'], cee))
    # concrete realisation with real classes (informational + strengthens the report)
    try:
        fl = list(flags[:n]); fl[n - 1] = False
        if any(fl) and not all(fl[:n - 1]):
            ref, got = _realise(n, fl)
            out['realisation_real_classes'] = dict(partition_no_eject=ref, partition_with_eject=got, differs=(ref != got))
    except Exception as e:
        out['realisation_error'] = repr(e)
    return out


def replay_margin(args, outdir):
    from singlecellmultiomics.molecule import Molecule
    a = args['cex']
    goal = a.get('goal', 'margin')
    class M: pass
    m = M(); m.chromosome, m.spanStart, m.spanEnd, m.cache_size = 'chr1', a.get('Sp', 0), a.get('E', 0), a.get('c', 40)
    fe = a.get('fe', 0)
    if goal == 'margin':
        ok = not (Molecule.can_be_yielded(m, 'chr1', fe) and a.get('site_g', 0) == a.get('site_m', 0))
    elif goal == 'other_contig_yieldable':
        ok = Molecule.can_be_yielded(m, 'chr2', fe)
    else:
        ok = not Molecule.can_be_yielded(m, None, fe)
    if ok:
        return dict(reproduced=False)
    return dict(reproduced=True, signature='L2_margin:%s' % goal, what='can_be_yielded declares a molecule closed although a later fragment can share its site: %r' % a)


def replay_span(args, outdir):
    from singlecellmultiomics.molecule import Molecule
    a = args['cex']
    SP, LP, PP = [0, 10, 60, 200], [0, 5, 100], [0, 49, 50, 51, 111, 261, 400]
    spans = [(SP[a['s0']], SP[a['s0']] + LP[a['l0']]), (SP[a['s1']], SP[a['s1']] + LP[a['l1']])]
    if a['l2'] >= 0:
        spans.append((SP[a['s2']], SP[a['s2']] + LP[a['l2']]))
    clause = S.span_growth_clause(Molecule, spans, 100, (PP[a['p0']],))
    if clause is None:
        return dict(reproduced=False)
    return dict(reproduced=True, signature='L2b_window_tracks_span:%s' % clause.split('.')[0], what='%s: fragment spans %r cache_size 100 probe %d' % (clause, spans, PP[a['p0']]))
