"""Replay against REAL VCF files: pysam.VariantFile (bgzip + tabix index), real gzip cache files."""
import os, shutil, tempfile
from spec import c18 as S


def _write_vcf(path, recs, samples):
    import pysam
    with open(path, 'w') as f:
        f.write('##fileformat=VCFv4.2\n##FORMAT=<ID=GT,Number=1,Type=String,Description="Genotype">\n##contig=<ID=chr1,length=1000>\n##contig=<ID=chr2,length=1000>\n')
        f.write('#CHROM\tPOS\tID\tREF\tALT\tQUAL\tFILTER\tINFO\tFORMAT\t' + '\t'.join(samples) + '\n')
        for (c, p, ref, alts, gts) in sorted(recs, key=lambda r: (r[0], r[1])):
            als = (ref,) + tuple(alts)
            extra = sorted(set(a for s in samples for a in gts[s] if a is not None and a not in als))
            als = als + tuple(extra)
            row = [c, str(p), '.', ref, ','.join(als[1:]), '.', '.', '.', 'GT']
            for s in samples:
                row.append('|'.join('.' if a is None else str(als.index(a)) for a in gts[s]))
            f.write('\t'.join(row) + '\n')
    pysam.tabix_compress(path, path + '.gz', force=True)
    pysam.tabix_index(path + '.gz', preset='vcf', force=True)
    return path + '.gz'


def replay(args, outdir):
    import importlib
    import singlecellmultiomics.alleleTools.alleleTools as AT
    a, lemma = args['cex'], args['lemma']
    d = tempfile.mkdtemp(prefix='c18', dir=os.environ.get('VERIF_SCRATCH') or None)
    try:
        if lemma == 'L1_site_rules':
            ref = ['C', 'A'][a['refi']]
            gts = {'s1': (S.ALLELES[a['a1']], S.ALLELES[a['a2']]), 's2': (S.ALLELES[a['b1']],)}
            vcf = _write_vcf(os.path.join(d, 'x.vcf'), [('chr1', 11, ref, ('T',), gts)], ['s1', 's2'])
            select = [None, ['s1'], ['s1', 's2']][a['sel']]
            ignore = [None, {('C', 'T')}, {('C', 'T'), ('G', 'A')}][a['ign']]
            ar = AT.AlleleResolver(vcf, chrom='chr1', phased=a['phased'], select_samples=select, ignore_conversions=ignore)
            base = 'ACGT'[a['qb']]
            got = ar.getAllelesAt('chr1', 10, base)
            # real pysam pads missing single alleles; the written record may carry extra ALT alleles: oracle on what the file says
            import pysam
            with pysam.VariantFile(vcf) as v:
                rec = next(v.fetch('chr1'))
                file_gts = {s: tuple(rec.samples[s].alleles) for s in rec.samples}
                want = S.site_answer((rec.ref, tuple(rec.alts), file_gts), select, a['phased'], ignore, base)
            ok = (got is None) == (want is None) and (got is None or set(got) == want)
            if ok:
                return dict(reproduced=False)
            return dict(reproduced=True, signature='L1_site_rules', what='record %r select %r phased %r ignore %r base %s -> %r expected %r' % (
                (ref, file_gts), select, a['phased'], ignore, base, got, want))
        H = importlib.import_module('harness.C18')
        import pysam, gzip as real_gzip, os as real_os
        AT.pysam, AT.gzip, AT.os = pysam, real_gzip, real_os
        vcf = _write_vcf(os.path.join(d, 'x.vcf'), H.RECS, ['s1', 's2'])
        order = [a['o0'], a['o1'], a['o2']]
        want = H._want(order)

        def answers(ar, order_):
            out = []
            for ci in order_:
                chrom = ['chr1', 'chr2', 'chr3'][ci]
                for pos, base in H.QUERIES:
                    r = ar.getAllelesAt(chrom, pos, base)
                    out.append(None if r is None else sorted(r))
            return out
        mode = a['mode']
        import io, contextlib
        with contextlib.redirect_stdout(io.StringIO()):
            if mode == 0:
                got = answers(AT.AlleleResolver(vcf, lazyLoad=False), order)
            elif mode == 1:
                got = answers(AT.AlleleResolver(vcf, lazyLoad=True), order)
            elif mode == 2:
                got = answers(AT.AlleleResolver(vcf, lazyLoad=a['lazy_flag'], use_cache=True), order)
            else:
                first = AT.AlleleResolver(vcf, lazyLoad=True, use_cache=True)
                answers(first, [0, 1])
                got = answers(AT.AlleleResolver(vcf, lazyLoad=a['lazy_flag'], use_cache=True), order)
        if got == want:
            return dict(reproduced=False)
        names = ['eager', 'lazy', 'cache_first_run', 'cache_second_run']
        return dict(reproduced=True, signature='L3_loading_modes:%s%s' % (names[mode], '' if mode < 2 else ('.lazyLoad_%s' % a['lazy_flag'])),
                    what='mode %s lazyLoad=%r access order %r: answers %r expected %r' % (names[mode], a['lazy_flag'], order, got, want))
    finally:
        shutil.rmtree(d, ignore_errors=True)
