import collections
from replay.common import pysam_mk
from spec import c11 as S


def replay(args, outdir):
    import importlib
    import singlecellmultiomics.bamProcessing.bamToCountTable as CT
    from singlecellmultiomics.modularDemultiplexer.baseDemultiplexMethods import metaFromRead
    H = importlib.import_module('harness.C11')
    a, lemma = args['cex'], args['lemma']
    # run the same lemma body with real pysam reads: swap the read factory used by the harness module
    H.FakeRead = pysam_mk
    fn = {'L1_filter': _filter_real, 'L2_weight_key': H._l2_weight, 'L2_by_value': H._l2_byvalue, 'L3_meta_lookup': H._l3_meta}[lemma]
    if lemma == 'L3_meta_lookup':
        return dict(reproduced=(not _meta_real(a, metaFromRead)), signature='L3_meta_lookup:lookup_order', what=repr(a))
    try:
        ok = fn(**a)
    except Exception as e:
        return dict(reproduced=True, signature='%s:raises.%s' % (lemma, type(e).__name__), what='%r for %r' % (e, a))
    if ok:
        return dict(reproduced=False)
    sig = lemma
    if lemma == 'L1_filter':
        sig += ':filter_mismatch'
    else:
        sig += ':weight_or_key'
    return dict(reproduced=True, signature=sig, what='%s for %r' % (sig, a))


def _meta_real(a, metaFromRead):
    tags = {}
    if a['has_bi']:
        tags['bi'] = 5
    if a['has_BI']:
        tags['BI'] = 7
    if a['has_DS']:
        tags['DS'] = 0
    read = pysam_mk(reference_name='chr1', reference_start=3, cigartuples=[(0, 4)], seq='ACGT', qual='IIII', tags=tags, mapping_quality=42)
    t = ['chrom', 'bi', 'BI', 'DS', 'mapping_quality'][a['tag']]
    got = metaFromRead(read, t)
    exp = {'chrom': 'chr1', 'bi': (5 if a['has_bi'] else (7 if a['has_BI'] else None)), 'BI': (7 if a['has_BI'] else (5 if a['has_bi'] else None)),
           'DS': (0 if a['has_DS'] else None), 'mapping_quality': 42}[t]
    return got == exp


def _filter_real(**a):
    """L1 on a real pysam read: concrete spec (S.passes) vs the real read_should_be_counted"""
    import singlecellmultiomics.bamProcessing.bamToCountTable as CT
    r = dict(read1=a['read1'], read2=a['read2'], paired=(a['read1'] or a['read2']), proper=a['proper'], unmapped=a['unmapped'], mate_unmapped=False,
             qcfail=a['qcfail'], duplicate=a['duplicate'], mapq=a['mapq'], cigar=S.CIGARS[a['ci']], RR=('reason' if a['rr'] else None),
             NM=(a['nm'] if a['nm_present'] else None), XA=S.XAS[a['xi']], mp=S.MPS[a['mi']], start=a['start'], NH=None)
    r['end'] = S.ref_end(r)
    o = dict(r1only=a['r1only'], r2only=a['r2only'], filterMP=a['filterMP'], minMQ=a['minMQ'], proper_pairs_only=a['ppo'], no_indels=a['no_indels'],
             max_base_edits=(a['mbe'] if a['mbe_set'] else None), no_softclips=a['no_soft'], filterXA=a['filterXA'], dedup=a['dedup'])
    bl = [(1000000, 1000001), (a['bs'], a['bs'] + a['bw'])] if a['bl'] else None
    got = CT.read_should_be_counted(S.make_read(pysam_mk, r), S.make_args(o), ({'chr1': bl} if bl else None))
    return bool(got) == S.passes(r, o, bl)
