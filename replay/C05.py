from spec import tagging as S
from spec import c05 as S5


def _cli_contig_mode(contigs):
    """Real end-to-end run: a BAM with one read per listed contig (and one unmapped read for '*'), tagged with the real
    command line in --multiprocess mode; returns how many input records are lost / duplicated in the output."""
    import os, shutil, tempfile, pysam, collections
    from singlecellmultiomics.universalBamTagger.bamtagmultiome import run_multiome_tagging_cmd
    d = tempfile.mkdtemp(prefix='c05', dir=os.environ.get('VERIF_SCRATCH') or None)
    try:
        sq = [{'SN': c, 'LN': max(int(l), 25)} for c, l in contigs if c != '*']
        if not sq:
            return None
        hdr = {'HD': {'VN': '1.6', 'SO': 'coordinate'}, 'SQ': sq}
        names = []
        qn = 'Is:NS500414;RN:455;Fc:HYLVHBGX5;La:3;Ti:13601;CX:9882;CY:%d;Fi:N;CN:0;aa:CCGTCC;aA:CCGTCC;aI:16;LY:LIB;RX:ACG;RQ:GGG;BI:17;bc:ACTCGATG;BC:ACTCGATG;QT:GGKKKKKK;MX:NLAIII384C8U3'
        inp = os.path.join(d, 'in.bam')
        with pysam.AlignmentFile(inp, 'wb', header=hdr) as o:
            for i, sqe in enumerate(sq):
                r = pysam.AlignedSegment(o.header)
                r.query_name = qn % i
                r.reference_id, r.reference_start = i, 0
                r.query_sequence, r.query_qualities, r.cigarstring, r.flag, r.mapping_quality = 'CATG' + 'ACGTTGCAAGTCAGGT', [30] * 20, '20M', 0, 60
                o.write(r); names.append((sqe['SN'], 0))
            if any(c == '*' for c, l in contigs):
                r = pysam.AlignedSegment(o.header)
                r.query_name = qn % 999
                r.query_sequence, r.query_qualities, r.flag = 'CATG' + 'ACGTTGCAAGTCAGGT', [30] * 20, 4
                o.write(r); names.append(('*', -1))
        pysam.index(inp)
        out = os.path.join(d, 'out.bam')
        run_multiome_tagging_cmd([inp, '-method', 'nla', '-o', out, '--multiprocess', '-tagthreads', '2', '-temp_folder', d])
        got = collections.Counter((('*', -1) if r.is_unmapped else (r.reference_name, r.reference_start)) for r in pysam.AlignmentFile(out, check_sq=False).fetch(until_eof=True))
        lost = sum(1 for n in names if got[n] == 0)
        dup = sum(1 for n in names if got[n] > 1)
        return dict(input_records=len(names), lost=lost, dup=dup)
    finally:
        shutil.rmtree(d, ignore_errors=True)


def _replay_qflag(a):
    """real BAM with the records of the counterexample through the real command line `-method qflag`"""
    import os, shutil, subprocess, sys, tempfile, collections, pysam
    from replay.common import pysam_mk, HEADER
    d = tempfile.mkdtemp(prefix='c05qflag', dir=os.environ.get('VERIF_SCRATCH') or None)
    try:
        inp = os.path.join(d, 'in.bam')
        ms, qs, us, rs = [a['m0'], a['m1'], a['m2']], [a['q0'], a['q1'], a['q2']], [a['u0'], a['u1'], a['u2']], [a['r0'], a['r1'], a['r2']]
        with pysam.AlignmentFile(inp, 'wb', header=HEADER) as h:
            for i in range(a['n']):
                r = pysam_mk(query_name='q%d' % i, reference_name='chr1', reference_start=100 + 10 * i, cigartuples=[(0, 8)], seq='ACGTACGT', qual='IIIIIIII',
                             is_paired=(ms[i] > 0), is_read1=(ms[i] == 1), is_read2=(ms[i] == 2), is_qcfail=qs[i], is_unmapped=False, is_reverse=rs[i],
                             tags={'SM': 'lib_1', 'RX': 'ACG'})
                if us[i]:          # unmapped but placed record: keeps its coordinate (sorted file), no CIGAR
                    r.cigartuples = None
                    r.is_unmapped = True
                h.write(r)
        pysam.index(inp)
        out = os.path.join(d, 'out.bam')
        p = subprocess.run([sys.executable, '-m', 'singlecellmultiomics.universalBamTagger.bamtagmultiome', inp, '-method', 'qflag', '-o', out],
                           capture_output=True, text=True, timeout=600)

        def recs(path):
            c = collections.Counter()
            with pysam.AlignmentFile(path) as f:
                for r in f.fetch(until_eof=True):
                    c[(r.reference_start, (r.is_read1, r.is_read2) if r.is_paired else None, r.query_sequence)] += 1
            return c
        if p.returncode != 0 or not os.path.exists(out):
            return 'cli_failed', (p.stderr or '')[-300:]
        if recs(inp) != recs(out):
            return 'records_differ', 'in %r out %r' % (sorted(recs(inp).items(), key=repr), sorted(recs(out).items(), key=repr))
        return None, ''
    finally:
        shutil.rmtree(d, ignore_errors=True)


def _replay_idxstats(a):
    """real BAM file with the given numbers of mapped / unmapped-but-placed records per contig through the real get_contigs_with_reads"""
    import os, shutil, tempfile, pysam
    import singlecellmultiomics.bamProcessing.bamFunctions as BFm
    from replay.common import pysam_mk
    C = [0, 1, 7]
    rows = [('chrA', 5000, C[a['m0']], C[a['u0']]), ('chrB', 200000, C[a['m1']], C[a['u1']]), ('chrC', 31, C[a['m2']], C[a['u2']])][:a['n']]
    hdr = pysam.AlignmentHeader.from_dict({'HD': {'VN': '1.6', 'SO': 'coordinate'}, 'SQ': [{'SN': r[0], 'LN': r[1]} for r in rows] or [{'SN': 'chrA', 'LN': 5000}]})
    d = tempfile.mkdtemp(prefix='c05idx', dir=os.environ.get('VERIF_SCRATCH') or None)
    try:
        p = os.path.join(d, 'in.bam')
        from stubs.fakeread import FakeRead
        with pysam.AlignmentFile(p, 'wb', header=hdr) as h:
            k = 0
            for name, L, m, u in rows:
                for i in range(m + u):
                    r = FakeRead(query_name='q%d' % k, reference_name=name, reference_start=1 + i, cigartuples=[(0, 4)], seq='ACGT', qual='IIII').to_pysam(hdr)
                    if i >= m:
                        r.cigartuples = None
                        r.is_unmapped = True
                    h.write(r)
                    k += 1
            for i in range(C[a['su']]):
                r = pysam.AlignedSegment(hdr)
                r.query_name, r.query_sequence, r.is_unmapped = 'u%d' % i, 'ACGT', True
                r.query_qualities = [30] * 4
                h.write(r)
        pysam.index(p)
        got = list(BFm.get_contigs_with_reads(p, a['with_length']))
        want = [((r[0], r[1]) if a['with_length'] else r[0]) for r in rows if r[2] > 0 or r[3] > 0]
        if C[a['su']] > 0:
            want.append(('*', 0) if a['with_length'] else '*')
        if got == want:
            return None, ''
        return 'contig_list', 'real BAM -> %r expected %r' % (got, want)
    finally:
        shutil.rmtree(d, ignore_errors=True)


def replay(args, outdir):
    if args['lemma'] == 'L0_contigs_with_reads':
        clause, desc = _replay_idxstats(args['cex'])
        if clause is None:
            return dict(reproduced=False)
        return dict(reproduced=True, signature='L0_contigs_with_reads:%s' % clause, what='get_contigs_with_reads: %s for %r' % (desc, args['cex']))
    if args['lemma'] == 'L7_qflag_every_record':
        clause, desc = _replay_qflag(args['cex'])
        if clause is None:
            return dict(reproduced=False)
        return dict(reproduced=True, signature='L7_qflag_every_record:%s' % clause, what='-method qflag on a BAM with records %r: %s %s' % (args['cex'], clause, desc))
    if args['lemma'] == 'L6_read_groups_declared':
        import importlib
        H = importlib.import_module('harness.C05')
        ok = H._l6_read_groups(**args['cex'])   # the driver under test is the real function; its environment is the step world
        if ok:
            return dict(reproduced=False)
        return dict(reproduced=True, signature='L6_read_groups_declared:undeclared_read_group', what='a written record carries a read group that is not passed to the header rewrite: %r' % (args['cex'],))
    if args['lemma'] == 'L5_job_bookkeeping':
        a, lemma = args['cex'], args['lemma']
        import singlecellmultiomics.universalBamTagger.tagging as TG
        clause = S.check_tagging_job(TG, [a['c0'], a['c1'], a['c2']][:a['n']], [a['v0'], a['v1'], a['v2'], a['v3']])
        desc = 'molecules per task %r validity %r' % ([a['c0'], a['c1'], a['c2']][:a['n']], [a['v0'], a['v1'], a['v2'], a['v3']])
        if clause is None:
            return dict(reproduced=False)
        return dict(reproduced=True, signature='%s:%s' % (lemma, clause), what='%s: %s' % (clause, desc))
    import importlib
    a, lemma = args['cex'], args['lemma']
    if lemma in ('L1_contig_jobs', 'L2_region_jobs', 'L1b_many_contigs'):
        # the block is cut again from the (unpatched, float-uncut) live source
        from vlib import astcut
        import singlecellmultiomics.universalBamTagger.bamtagmultiome as BT
        if lemma in ('L1_contig_jobs', 'L1b_many_contigs'):
            block = astcut.cut_if(BT, 'tag_multiome_multi_processing', 'one_contig_per_process', 'body',
                                  params=('get_contigs_with_reads', 'input_bam_path', 'contig_whitelist', 'contig_restricted'), result='job_gen')
            if lemma == 'L1b_many_contigs':
                contigs = [('k%02d' % i, 5_000_000 if a['a'] <= i < a['b'] else 900) for i in range(a['n'])] + ([('*', 0)] if a['star'] else [])
            else:
                names = ['c0', 'c1', 'c2', 'c3', 'c4']
                contigs = [(names[i], l) for i, l in enumerate([a['l0'], a['l1'], a['l2'], a['l3'], a['l4']][:a['n']])]
                if a['star'] >= 0:
                    contigs.insert(a['star'], ('*', 0))
            restrict = None if a.get('sel', -1) < 0 else names[a['sel']] if lemma == 'L1_contig_jobs' else None
            clause = S.check_contig_jobs(block, contigs, restrict)
            desc = 'contigs (idxstats order) = %r, -contig %r' % (contigs, restrict)
            if clause is not None and restrict is not None:
                def g2(path, with_length=False):
                    for c, l in contigs:
                        yield (c, l) if with_length else c
                desc += ' -> jobs %r' % (block(g2, 'x', [restrict], True),)
            if clause is not None and restrict is None:
                try:
                    cli = _cli_contig_mode(contigs)
                    if cli is not None and cli['lost'] == 0 and cli['dup'] == 0:
                        return dict(reproduced=False, note='block-level clause %s but the real CLI run conserved all records' % clause, cli=cli)
                    desc += ' | real CLI run (--multiprocess): %r' % (cli,)
                except Exception as e:  # CLI replay is best effort; the block-level replay stands
                    desc += ' | CLI replay failed: %r' % (e,)
                def g(path, with_length=False):
                    for c, l in contigs:
                        yield (c, l) if with_length else c
                desc += ' -> jobs %r' % (block(g, 'x', [c for c, l in contigs], False),)
        else:
            raw = astcut.cut_if(BT, 'tag_multiome_multi_processing', 'one_contig_per_process', 'orelse',
                                params=('input_bam_path', 'bp_per_segment', 'fragment_size', 'bp_per_job', 'contig_whitelist', 'blacklist_path'),
                                result='job_gen')
            sizes = [('c0', a['L0']), ('c1', a['L1'])][:a['n']]
            wl = [None, ['c0'], ['c0', 'c1']][a['wl']]
            clause = S.check_region_jobs(lambda cs, b, F, bpj, w: raw(cs, b, F, bpj, w, None), sizes, a['b'], a['bpj'], a['F'], wl)
            desc = 'contig sizes %r bin %d bp_per_job %d fragment_size %d whitelist %r' % (sizes, a['b'], a['bpj'], a['F'], wl)
    elif lemma == 'L3_iterator_conservation':
        clause = S5.check_iterator_conservation(a['n'], [a['v0'], a['v1'], a['v2'], a['v3']], [a['k0'], a['k1'], a['k2'], a['k3']],
                                                a['cap'], a['pooling'], a['rejects'], None if a['cee'] < 0 else a['cee'])
        desc = repr(a)
    else:
        import singlecellmultiomics.universalBamTagger.tagging as TG
        specs = [((0 if h else None), s) for h, s in zip([a['h0'], a['h1'], a['h2']], [a['s0'], a['s1'], a['s2']])][:a['n']]
        clause = S.check_tagging_task(TG.run_tagging_task, specs, None)
        desc = repr(specs)
    if clause is None:
        return dict(reproduced=False)
    return dict(reproduced=True, signature='%s:%s' % (lemma, clause), what='%s: %s' % (clause, desc))
