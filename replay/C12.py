"""Replay: a real BAM with one read, real pysam, the real generate_commands / count_fragments_binned and the merge loop of obtain_counts."""
import os, shutil, tempfile


def replay(args, outdir):
    import pysam
    from vlib import astcut
    import singlecellmultiomics.bamProcessing.bamBinCounts as B
    a, lemma = args['cex'], args['lemma']
    merge = astcut.cut_for(B, 'obtain_counts', 'result.items()', params=('counts', 'result'), result='counts')
    if lemma == 'L5_two_reads_megabase_scale':
        return _two_reads(a, merge)
    if lemma == 'L4_two_files_same_contig_name':
        return _two_files(a, merge)
    if lemma == 'L3b_merge_two_files_same_bins':
        return _two_files_same_bins(a)
    if lemma == 'L6_two_reads_start_vs_site_order':
        return _two_reads_site_order(a, merge)
    if lemma == 'L3_merge_order':
        import importlib
        H = importlib.import_module('harness.C12')
        H._merge = merge
        ok = H._l3_merge(**a)
        return dict(reproduced=not ok, signature='L3_merge_order:merge', what=repr(a))
    if lemma == 'L1_geometry_all_partitions':
        a = dict(a, read1=True, qcfail=False, dup=False, mi=0, mapq=60, min_mq=50, dedup=True, keyed=False, da_present=False)
    elif lemma == 'L1_filters':
        a = dict(a, L=5, b=2, k=1, F=3, rs=1, rl=2, ds=3)
    d = tempfile.mkdtemp(prefix='c12', dir=os.environ.get('VERIF_SCRATCH') or None)
    try:
        L, b, k, F = a['L'], a['b'], a['k'], a['F']
        path = os.path.join(d, 'x.bam')
        hdr = {'HD': {'VN': '1.6', 'SO': 'coordinate'}, 'SQ': [{'SN': 'chr1', 'LN': L}]}
        with pysam.AlignmentFile(path, 'wb', header=hdr) as o:
            r = pysam.AlignedSegment(o.header)
            r.query_name = 'q'
            r.reference_id, r.reference_start = 0, a['rs']
            r.query_sequence = 'ACG'[:a['rl']]
            r.query_qualities = [30] * a['rl']
            r.cigarstring = '%dM' % a['rl']
            r.is_paired = True
            r.is_read1, r.is_read2 = a['read1'], not a['read1']
            r.is_qcfail, r.is_duplicate, r.mapping_quality = a['qcfail'], a['dup'], a['mapq']
            r.set_tag('SM', 'cellA')
            if a['ds_present']:
                r.set_tag('DS', a['ds'])
            if a['mi']:
                r.set_tag('mp', ['', 'unique', 'multi'][a['mi']])
            if a['da_present']:
                r.set_tag('DA', 'a1')
            o.write(r)
        pysam.index(path)
        keyed = a['keyed']
        total = {}
        for cmd in B.generate_commands(path, bin_size=b, bins_per_job=k, max_fragment_size=F, min_mq=a['min_mq'], key_tags=(['DA'] if keyed else None), dedup=a['dedup'], kwargs={}):
            total = merge(total, B.count_fragments_binned(cmd))
        site = a['ds'] if a['ds_present'] else a['rs']
        counted = a['read1'] and not a['qcfail'] and not (a['dedup'] and a['dup']) and a['mi'] != 2 and a['mapq'] >= a['min_mq'] and 0 <= site < L
        if counted:
            bi = site // b
            key = ('chr1', b * bi, min(b * (bi + 1), L))
            if keyed:
                key = (('a1' if a['da_present'] else None),) + key
            exp = {key: {'cellA': 1}}
        else:
            exp = {}
        if total == exp:
            return dict(reproduced=False)
        n = sum(v for sd in total.values() for v in sd.values())
        clause = 'lost' if n == 0 and exp else ('double_counted' if n > 1 else ('counted_but_filtered' if not exp else 'wrong_bin'))
        return dict(reproduced=True, signature='%s:%s' % (lemma, clause),
                    what='%s: contig %d, bin %d, bins_per_job %d, max_fragment_size %d, read %r -> %r expected %r' % (clause, L, b, k, F, {x: a[x] for x in ('rs', 'rl', 'ds_present', 'ds', 'read1', 'qcfail', 'dup', 'mi', 'mapq', 'min_mq', 'dedup')}, total, exp))
    finally:
        shutil.rmtree(d, ignore_errors=True)


def _two_files(a, merge):
    import pysam
    import singlecellmultiomics.bamProcessing.bamBinCounts as B
    d = tempfile.mkdtemp(prefix='c12b', dir=os.environ.get('VERIF_SCRATCH') or None)
    try:
        totals = {}
        for name, L, rs in (('a', a['LA'], 0), ('b', a['LB'], a['rs'])):
            path = os.path.join(d, name + '.bam')
            with pysam.AlignmentFile(path, 'wb', header={'HD': {'VN': '1.6', 'SO': 'coordinate'}, 'SQ': [{'SN': 'chr1', 'LN': L}]}) as o:
                r = pysam.AlignedSegment(o.header)
                r.query_name, r.reference_id, r.reference_start = 'q', 0, rs
                r.query_sequence, r.query_qualities, r.cigarstring = 'A', [30], '1M'
                r.is_paired, r.is_read1, r.mapping_quality = True, True, 60
                r.set_tag('SM', 'cellA')
                o.write(r)
            pysam.index(path)
            total = {}
            for cmd in B.generate_commands(path, bin_size=a['b'], bins_per_job=1, max_fragment_size=2, min_mq=50, key_tags=None, dedup=True, kwargs={}):
                total = merge(total, B.count_fragments_binned(cmd))
            totals[name] = total
        b, rs, LB, LA = a['b'], a['rs'], a['LB'], a['LA']
        bi = rs // b
        exp_b = {('chr1', b * bi, min(b * (bi + 1), LB)): {'cellA': 1}}
        exp_a = {('chr1', 0, min(b, LA)): {'cellA': 1}}
        if totals['a'] == exp_a and totals['b'] == exp_b:
            return dict(reproduced=False)
        return dict(reproduced=True, signature='L4_two_files_same_contig_name:second_file_wrong',
                    what='counting a.bam (chr1 length %d) then b.bam (chr1 length %d) in one process: b.bam -> %r expected %r' % (LA, LB, totals['b'], exp_b))
    finally:
        shutil.rmtree(d, ignore_errors=True)


def _two_reads_site_order(a, merge):
    """a real coordinate-sorted BAM with two reads whose DS sites may be ordered opposite to their starts"""
    import pysam
    import singlecellmultiomics.bamProcessing.bamBinCounts as B
    L, b, k, F = a['L'], a['b'], a['k'], a['F']
    d = tempfile.mkdtemp(prefix='c12s', dir=os.environ.get('VERIF_SCRATCH') or None)
    try:
        path = os.path.join(d, 'x.bam')
        with pysam.AlignmentFile(path, 'wb', header={'HD': {'VN': '1.6', 'SO': 'coordinate'}, 'SQ': [{'SN': 'chr1', 'LN': L}]}) as o:
            for name, st, ds in (('qa', a['sa'], a['da']), ('qb', a['sb'], a['db'])):
                r = pysam.AlignedSegment(o.header)
                r.query_name, r.reference_id, r.reference_start = name, 0, st
                r.query_sequence, r.query_qualities, r.cigarstring = 'A', [30], '1M'
                r.is_paired, r.is_read1, r.mapping_quality = True, True, 60
                r.set_tag('SM', 'cellA')
                r.set_tag('DS', ds)
                o.write(r)
        pysam.index(path)
        total = {}
        for cmd in B.generate_commands(path, bin_size=b, bins_per_job=k, max_fragment_size=F, min_mq=50, key_tags=None, dedup=True, kwargs={}):
            total = merge(total, B.count_fragments_binned(cmd))
        exp = {}
        for site in (a['da'], a['db']):
            i = site // b
            key = ('chr1', b * i, min(b * (i + 1), L))
            exp.setdefault(key, {})
            exp[key]['cellA'] = exp[key].get('cellA', 0) + 1
        got = {k_: dict(v) for k_, v in total.items() if v}
        if got == exp:
            return dict(reproduced=False)
        return dict(reproduced=True, signature='L6_two_reads_start_vs_site_order:table_differs', what='reads (start, DS) = (%d,%d), (%d,%d); L=%d bin=%d bins_per_job=%d max_fragment_size=%d -> %r expected %r' % (a['sa'], a['da'], a['sb'], a['db'], L, b, k, F, got, exp))
    finally:
        shutil.rmtree(d, ignore_errors=True)


def _two_files_same_bins(a):
    """two REAL BAM files with reads of the same cells in the same bins through the real generate_commands([a, b]) + obtain_counts"""
    import pysam
    import singlecellmultiomics.bamProcessing.bamBinCounts as B
    BINS = [('chr1', 0, 2), ('chr1', 2, 4)]
    CELLS = ['cellA', 'cellB']
    specs = {'a': [(a['a0'], a['c0']), (a['a1'], a['c1'])][:a['n1']], 'b': [(a['b0'], a['d0']), (a['b1'], a['d1'])][:a['n2']]}
    if any(c > 50 for v in specs.values() for _, c in v):
        return dict(reproduced=False, note='counts too large to write as reads')
    d = tempfile.mkdtemp(prefix='c12m', dir=os.environ.get('VERIF_SCRATCH') or None)
    try:
        exp, paths = {}, []
        for name in ('a', 'b'):
            path = os.path.join(d, name + '.bam')
            paths.append(path)
            with pysam.AlignmentFile(path, 'wb', header={'HD': {'VN': '1.6', 'SO': 'coordinate'}, 'SQ': [{'SN': 'chr1', 'LN': 4}]}) as o:
                for i, (cell, c) in enumerate(specs[name]):
                    for k in range(c):
                        r = pysam.AlignedSegment(o.header)
                        r.query_name, r.reference_id, r.reference_start = 'q%s%d_%d' % (name, i, k), 0, BINS[i][1]
                        r.query_sequence, r.query_qualities, r.cigarstring = 'A', [30], '1M'
                        r.is_paired, r.is_read1, r.mapping_quality = True, True, 60
                        r.set_tag('SM', CELLS[cell])
                        o.write(r)
                    exp.setdefault(BINS[i], {})
                    exp[BINS[i]][CELLS[cell]] = exp[BINS[i]].get(CELLS[cell], 0) + c
            pysam.index(path)
        order = paths if a['order'] else paths[::-1]
        cmds = list(B.generate_commands(order, bin_size=2, bins_per_job=1, max_fragment_size=2, min_mq=50, key_tags=None, dedup=True, kwargs={}))
        got = B.obtain_counts(cmds, reference=None, live_update=False, threads=1)
        got = {k: dict(v) for k, v in got.items() if v}
        if got == exp:
            return dict(reproduced=False)
        return dict(reproduced=True, signature='L3b_merge_two_files_same_bins:not_summed', what='two BAM files %r through generate_commands + obtain_counts -> %r expected %r' % (specs, got, exp))
    finally:
        shutil.rmtree(d, ignore_errors=True)


def _two_reads(a, merge):
    import pysam
    import singlecellmultiomics.bamProcessing.bamBinCounts as B
    L = 2_600_000
    b = [250_000, 300_000, 700_000, 1_000_000][a['bi']]
    POS = [0, 299_999, 300_000, 999_999, 1_000_000, 1_000_001, 1_199_999, 1_200_000, 2_099_999, 2_599_999]
    sites = sorted((POS[a['p1']], POS[a['p2']]))
    d = tempfile.mkdtemp(prefix='c12t', dir=os.environ.get('VERIF_SCRATCH') or None)
    try:
        path = os.path.join(d, 'x.bam')
        cells = []
        with pysam.AlignmentFile(path, 'wb', header={'HD': {'VN': '1.6', 'SO': 'coordinate'}, 'SQ': [{'SN': 'chr1', 'LN': L}]}) as o:
            for i, s_ in enumerate(sites):
                r = pysam.AlignedSegment(o.header)
                r.query_name, r.reference_id, r.reference_start = 'q%d' % i, 0, s_
                r.query_sequence, r.query_qualities, r.cigarstring = 'A', [30], '1M'
                r.is_paired, r.is_read1, r.mapping_quality = True, True, 60
                cell = 'cellA' if (a['same_cell'] or i == 0) else 'cellB'
                cells.append(cell)
                r.set_tag('SM', cell)
                o.write(r)
        pysam.index(path)
        total = {}
        for cmd in B.generate_commands(path, bin_size=b, bins_per_job=a['k'], max_fragment_size=1000, min_mq=50, key_tags=None, dedup=True, kwargs={}):
            total = merge(total, B.count_fragments_binned(cmd))
        exp = {}
        for s_, cell in zip(sites, cells):
            i = s_ // b
            key = ('chr1', b * i, min(b * (i + 1), L))
            exp.setdefault(key, {})
            exp[key][cell] = exp[key].get(cell, 0) + 1
        if total == exp:
            return dict(reproduced=False)
        return dict(reproduced=True, signature='L5_two_reads_megabase_scale:table_differs',
                    what='bin %d bins_per_job %d sites %r cells %r -> %r expected %r' % (b, a['k'], sites, cells, total, exp))
    finally:
        shutil.rmtree(d, ignore_errors=True)
