from replay.common import pysam_mk


def replay(args, outdir):
    import importlib
    H = importlib.import_module('harness.C13')
    # real pysam reads need an MD tag for get_aligned_pairs(with_seq=True): emulate "all match" like FakeRead does
    def mk(**kw):
        r = pysam_mk(**kw)
        md, run = '', 0
        for op, l in kw['cigartuples']:
            if op == 0:
                run += l
            elif op == 2:
                md += '%d^%s' % (run, 'A' * l)
                run = 0
        r.set_tag('MD', md + str(run))
        return r
    H.FakeRead = mk
    a, lemma = args['cex'], args['lemma']
    fn = {'L1_pick_best_base_call': H._l1_pick_best, 'L2_mate_overlap': H._l2_mates, 'L2b_dovetail_window': H._l2b_dovetail, 'L3_majority': H._l3_majority, 'L3b_majority_indel': H._l3b_majority_indel, 'L3c_same_strand_pair_skipped': H._l3c_odd_pair, 'L4_order_duplication': H._l4_order}[lemma]
    try:
        ok = fn(**a)
    except Exception as e:
        return dict(reproduced=True, signature='%s:raises.%s' % (lemma, type(e).__name__), what='%r for %r' % (e, a))
    if ok:
        return dict(reproduced=False)
    return dict(reproduced=True, signature=lemma, what='%s violated on real pysam reads for %r' % (lemma, a))
