import os, shutil, tempfile
from spec import c03 as S


def replay(args, outdir):
    import singlecellmultiomics.barcodeFileParser.barcodeFileParser as BFP
    a, lemma = args['cex'], args['lemma']
    A = S.ALPHA
    if lemma == 'L1_sphere':
        s = (A[a['a']] + A[a['b']] + A[a['c']] + A[a['d']])[:a['L']]
        clause, desc = S.sphere_clause(BFP.hamming_circle, s, a['n']), 'hamming_circle(%r, %d)' % (s, a['n'])
    elif lemma == 'L2_resolution_len2':
        S2 = S.all_strings(2)
        wl = [(S2[a['w0']], 1), (S2[a['w1']], 2), (S2[a['w2']], 3)][:a['W']]
        clause, desc = S.resolution_clause(wl, a['k'], 2), 'whitelist %r k=%d' % (wl, a['k'])
    elif lemma == 'L2_resolution_len3':
        S3 = S.all_strings(3)
        wl = [(S3[a['w0']], 7), (S3[a['w1']], 'cellB')]
        clause, desc = S.resolution_clause(wl, a['k'], 3), 'whitelist %r k=%d' % (wl, a['k'])
    else:
        # file based lemmas: real files in a temp dir, real open()
        d = tempfile.mkdtemp(prefix='c03', dir=os.environ.get('VERIF_SCRATCH') or None)
        try:
            if lemma == 'L3_lazy_lookup':
                files = {'aliasA.bc': 'AC 1\nGT 2\n', 'aliasB.bc': 'AA\tx\nCC\ty\n'}
                for n, t in files.items():
                    open(os.path.join(d, n), 'w').write(t)
                p = S.new_parser(a['k'], pending={'aliasA': os.path.join(d, 'aliasA.bc'), 'aliasB': os.path.join(d, 'aliasB.bc')})
                wl = {'aliasA': [('AC', 1), ('GT', 2)], 'aliasB': [('AA', 'x'), ('CC', 'y')]}
                order = ['aliasA', 'aliasB'] if a['first'] == 0 else ['aliasB', 'aliasA']
                clause = None
                if a['use_getitem'] and p[order[0]] != dict(wl[order[0]]):
                    clause = 'getitem_map'
                S2 = S.all_strings(2)
                for alias in order + order:
                    for q in S2:
                        if clause is None and tuple(p.getIndexCorrectedBarcodeAndHammingDistance(alias=alias, barcode=q)) != S.oracle(wl[alias], a['k'], q):
                            clause = 'lazy_lookup.%s' % ('after_getitem' if a['use_getitem'] and alias == order[0] else 'plain')
                if clause is None and p.pending_files:
                    clause = 'still_pending'
                desc = repr(a)
            else:
                bcs = ['ACGT', 'TTGA', 'CANN'][:a['n']]
                IDX = [0, 7, 400]
                idx = [IDX[a['i0']], IDX[a['i1']], IDX[a['i2']]][:a['n']]
                names = ['%s' % i if not a['named'] else 'c%s' % i for i in idx]
                sep = '\t' if a['tab'] else ' '
                if a['fmt'] == 0:
                    text = ''.join(b + sep + nm + '\n' for b, nm in zip(bcs, names)); want = {b: (i if not a['named'] else 'c%s' % i) for b, i in zip(bcs, idx)}
                elif a['fmt'] == 1:
                    text = ''.join(nm + sep + b + '\n' for b, nm in zip(bcs, names)); want = {b: (i if not a['named'] else 'c%s' % i) for b, i in zip(bcs, idx)}
                else:
                    text = ''.join(b + '\n' for b in bcs); want = {b: k + 1 for k, b in enumerate(bcs)}
                path = os.path.join(d, 'my_alias.bc')
                open(path, 'w').write(text)
                p = S.new_parser(0)
                p.parse_barcode_file(path)
                clause = None if dict(p.barcodes['my_alias']) == want else 'file_format.fmt%d' % a['fmt']
                desc = 'file %r -> %r, expected %r' % (text, dict(p.barcodes['my_alias']), want)
        finally:
            shutil.rmtree(d, ignore_errors=True)
    if clause is None:
        return dict(reproduced=False)
    return dict(reproduced=True, signature='%s:%s' % (lemma, clause), what='%s: %s' % (clause, desc))
