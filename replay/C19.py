"""Replay C19 counterexamples on the REAL file system: real gzip, real HandleLimiter, descriptor limit
enforced by counting this test's own open gzip handles (wrapping gzip.open), not by a stub file system."""
import gzip, os, shutil, tempfile, errno
from spec import c19 as S
import singlecellmultiomics.pyutils.handlelimiter as HLmod
from singlecellmultiomics.pyutils.handlelimiter import HandleLimiter


class _Gate:
    """Wraps the real gzip.open: counts live handles, injects EMFILE/transient/permanent failures."""
    def __init__(self, limit, fail_at, perm_path):
        self.limit, self.fail_at, self.perm_path = limit, fail_at, perm_path
        self.live, self.calls, self.failed_live = 0, 0, []

    def open(self, path, mode='rb', compresslevel=9, **kw):
        idx = self.calls
        self.calls += 1
        if self.perm_path is not None and path.endswith(self.perm_path):
            self.failed_live.append(self.live); raise OSError(errno.EACCES, 'denied', path)
        if self.fail_at is not None and idx == self.fail_at:
            self.failed_live.append(self.live); raise OSError(errno.EMFILE, 'transient', path)
        if self.limit is not None and self.live >= self.limit:
            self.failed_live.append(self.live); raise OSError(errno.EMFILE, 'Too many open files', path)
        h = gzip.open(path, mode, compresslevel)
        gate = self
        self.live += 1
        orig_close = h.close
        state = {'closed': False}

        def close():
            if not state['closed']:
                state['closed'] = True
                gate.live -= 1
            return orig_close()
        h.close = close
        return h


def replay(args, outdir):
    a = args['cex']
    lemma = args['lemma']
    if lemma == 'L1_emfile':
        writes = [a['w0'], a['w1'], a['w2'], a['w3'], a['w4']][:a['n']]
        k, fail_at, perm = a['k'], None, None
    else:
        writes = [a['w0'], a['w1'], a['w2'], a['w3']][:a['n']]
        k = a['k']
        fail_at, perm = (a['t'], None) if a['transient'] else (None, a['t'])
    d = tempfile.mkdtemp(prefix='c19', dir=os.environ.get('VERIF_SCRATCH') or None)
    gate = _Gate(k, fail_at, None if perm is None else S.PATHS[perm])
    real_gzip = HLmod.gzip
    try:
        HLmod.gzip = gate
        hl, expected, exc, failed_at = S.run_writes(lambda: HandleLimiter(maxHandles=a['maxh'], pruneEvery=a['prune']),
                                                    writes, 1, prefix=d + '/')
        clause = None
        for p in S.PATHS:
            fp = d + '/' + p
            got = gzip.open(fp, 'rt').read() if os.path.exists(fp) else ''
            if got != expected.get(fp, ''):
                clause = 'content'
        if clause is None and gate.live != 0:
            clause = 'descriptors_leaked'
        if clause is None and exc is not None and (not gate.failed_live or gate.failed_live[-1] != 0):
            clause = 'raised_with_others_open:' + type(exc).__name__
        if clause is None and exc is None and perm is not None and perm in writes:
            clause = 'permanent_failure_swallowed'
    finally:
        HLmod.gzip = real_gzip
        shutil.rmtree(d, ignore_errors=True)
    if clause is None:
        return dict(reproduced=False)
    return dict(reproduced=True, signature='%s:%s' % (lemma, clause),
                what='HandleLimiter %s for writes=%r k=%r maxHandles=%r pruneEvery=%r' % (clause, writes, k, a['maxh'], a['prune']))


def replay_after_failure(args, outdir):
    """real gzip files; one transient open() failure injected through the gate; the caller keeps writing after an error"""
    a = args['cex']
    writes = [a['w0'], a['w1'], a['w2'], a['w3']][:a['n']]
    d = tempfile.mkdtemp(prefix='c19f', dir=os.environ.get('VERIF_SCRATCH') or None)
    gate = _Gate(None, a['t'], None)
    real_gzip = HLmod.gzip
    clause = None
    try:
        HLmod.gzip = gate
        errors = []
        hl, expected, exc, failed_at = S.run_writes(lambda: HandleLimiter(maxHandles=a['maxh'], pruneEvery=a['prune']), writes, 1, prefix=d + '/',
                                                    keep_going=True, errors=errors)
        for i, e in errors:
            if not isinstance(e, OSError):
                clause = 'raised_without_open_failure:' + type(e).__name__
        if clause is None and len(errors) > 1:
            clause = 'more_than_one_write_failed'
        if clause is None and errors and (not gate.failed_live or gate.failed_live[-1] != 0):
            clause = 'raised_with_others_open'
        if clause is None:
            for p in S.PATHS:
                fp = d + '/' + p
                got = gzip.open(fp, 'rt').read() if os.path.exists(fp) else ''
                if got != expected.get(fp, ''):
                    clause = 'content'
        if clause is None and gate.live != 0:
            clause = 'descriptors_leaked'
    finally:
        HLmod.gzip = real_gzip
        shutil.rmtree(d, ignore_errors=True)
    if clause is None:
        return dict(reproduced=False)
    return dict(reproduced=True, signature='L1c_writes_after_a_failed_open:%s' % clause,
                what='HandleLimiter %s for writes=%r transient failure at open call %r maxHandles=%r pruneEvery=%r' % (clause, writes, a['t'], a['maxh'], a['prune']))


def replay_fh(args, outdir):
    from singlecellmultiomics.fastqProcessing.fastqHandle import FastqHandle
    a = args['cex']
    d = tempfile.mkdtemp(prefix='c19', dir=os.environ.get('VERIF_SCRATCH') or None)
    gate = _Gate(a['k'], None, None)
    real_gzip = HLmod.gzip

    class Rec:
        def __init__(self, t, tags): self.t, self.tags = t, tags
        def __str__(self): return self.t
    try:
        HLmod.gzip = gate
        if a.get('stale'):
            for mate in ('R1', 'R2'):
                with gzip.open('%s/lib.1.CS2.%s.fastq.gz' % (d, mate), 'wt') as h:
                    h.write('@old\nT\n+\nI\n')
        fh = FastqHandle(d + '/lib', pairedEnd=True, single_cell=True, maxHandles=a['maxh'])
        fh.handles.pruneEvery = 2
        exp = {}
        clause = None
        try:
            for i, c in enumerate([a['c0'], a['c1'], a['c2']][:a['n']]):
                tags = {'bi': c + 1, 'MX': 'CS2'}
                r1, r2 = Rec('@p%d/1\nA\n+\nI\n' % i, tags), Rec('@p%d/2\nC\n+\nI\n' % i, tags)
                fh.write([r1, r2])
                for mate, rec in (('R1', r1), ('R2', r2)):
                    key = '%s/lib.%d.CS2.%s.fastq.gz' % (d, c + 1, mate)
                    exp[key] = exp.get(key, '') + rec.t
            fh.close()
        except Exception as e:
            clause = 'raised:' + type(e).__name__
        if clause is None:
            for key, v in exp.items():
                if not os.path.exists(key) or gzip.open(key, 'rt').read() != v:
                    clause = 'content'
    finally:
        HLmod.gzip = real_gzip
        shutil.rmtree(d, ignore_errors=True)
    if clause is None:
        return dict(reproduced=False)
    return dict(reproduced=True, signature='L2_fastqhandle_sc:' + clause, what='FastqHandle single-cell mode: %s for %r' % (clause, a))


def replay_split(args, outdir):
    """Real BAM input, the real split_bam_by_tag + the real driver loop of the __main__ block (AST cut) run in-process with
    the REAL pysam (AlignmentFile wrapped only to count simultaneously open output handles), output BAM files read back."""
    import pysam
    import singlecellmultiomics.bamProcessing.bamSplitByTag as BSmod
    from replay.common import pysam_mk, HEADER
    from stubs.fakebam import SerialPool
    from vlib.astcut import cut_main
    a = args['cex']
    vals = ['cellA', 'cellB', 'cellC']
    tags = [a['t0'], a['t1'], a['t2'], a['t3'], a['t4']][:a['n']]
    d = tempfile.mkdtemp(prefix='c19split', dir=os.environ.get('VERIF_SCRATCH') or None)
    clause = None
    state = dict(open_now=0, max_open=0, passes=0)

    class CountingPysam:
        index = staticmethod(pysam.index)

        @staticmethod
        def AlignmentFile(path, mode='rb', **kw):
            h = pysam.AlignmentFile(path, mode, **kw)
            if 'w' in mode:
                state['open_now'] += 1
                state['max_open'] = max(state['max_open'], state['open_now'])

                class W:
                    filename = h.filename

                    def write(self, r):
                        return h.write(r)

                    def close(self):
                        if not h.closed:
                            state['open_now'] -= 1
                        return h.close()
                return W()
            state['passes'] += 1
            if state['passes'] > 12:
                raise RuntimeError('driver loop does not terminate')
            return h
    saved = (BSmod.pysam, BSmod.Pool, getattr(BSmod, 'print', None))
    try:
        inp = os.path.join(d, 'in.bam')
        with pysam.AlignmentFile(inp, 'wb', header=HEADER) as h:
            for i, t in enumerate(tags):
                h.write(pysam_mk(query_name='r%d' % i, reference_name='chr1', reference_start=10 * i, cigartuples=[(0, 4)], seq='ACGT', qual='IIII',
                                 tags=({'SM': vals[t]} if t < 3 else {})))
        pysam.index(inp)
        out = os.path.join(d, 'out') + '/'
        os.makedirs(out)
        BSmod.pysam, BSmod.Pool, BSmod.print = CountingPysam, SerialPool, (lambda *x, **k: None)
        driver = cut_main(BSmod, 'skip = set()', params=('args', 'output_prefix'), result='skip')

        class A:
            bamfile, tag, head, max_handles = inp, 'SM', None, a['maxh']
        try:
            driver(A, out)
        except Exception as e:
            clause = 'raises.' + type(e).__name__
        exp = {}
        for i, t in enumerate(tags):
            if t < 3:
                exp.setdefault(vals[t], []).append('r%d' % i)
        if clause is None:
            for v, names in exp.items():
                fp = '%s%s.bam' % (out, v)
                if not os.path.exists(fp):
                    clause = 'file_missing'
                    break
                with pysam.AlignmentFile(fp) as h:
                    if [r.query_name for r in h] != names:
                        clause = 'content'
                        break
                if not os.path.exists(fp + '.bai'):
                    clause = 'index_missing'
                    break
            extra = [f for f in os.listdir(out) if f.endswith('.bam') and f[:-4] not in exp]
            if clause is None and extra:
                clause = 'unexpected_file'
            if clause is None and state['max_open'] > a['maxh']:
                clause = 'more_handles_open_than_max_handles'
    finally:
        BSmod.pysam, BSmod.Pool = saved[0], saved[1]
        if saved[2] is None:
            try:
                del BSmod.print
            except AttributeError:
                pass
        shutil.rmtree(d, ignore_errors=True)
    if clause is None:
        return dict(reproduced=False)
    return dict(reproduced=True, signature='L3_bam_split_by_tag:' + clause, what='bamSplitByTag: %s for %r' % (clause, a))
