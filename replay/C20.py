"""Replay C20 counterexamples against the REAL pipeline: real pysam / samtools sort+index on a real BAM
(/repo/data/mini_nla_test.bam), with one fault injected at the step the model named."""
import os, shutil, sys, tempfile, collections


class _Inject(Exception):
    pass


class _Kill(BaseException):
    pass


def _model_trace(lemma, a):
    """run the stub model concretely to learn the name / occurrence of the failing step, then restore the modules"""
    import importlib
    import singlecellmultiomics.universalBamTagger.bamtagmultiome as BT
    import singlecellmultiomics.bamProcessing.bamFunctions as BF
    saved_bt, saved_bf = dict(vars(BT)), dict(vars(BF))
    try:
        H = importlib.import_module('harness.C20')
        from spec import c20 as S
        worlds = []
        orig_world = S.World

        class W(orig_world):
            def __init__(self, *x):
                orig_world.__init__(self, *x)
                worlds.append(self)
        S.World = W
        try:
            if lemma == 'L3_failed_rerun':
                clause = H._rerun(None if a['kappa'] < 0 else a['kappa'], a['kill'], a['etype'], a['bad_suffix'])
            elif lemma == 'L1_single_process':
                clause = H._single(None if a['kappa'] < 0 else a['kappa'], a['kill'], a['n'])
            else:
                clause = H._multi(None if a['kappa'] < 0 else a['kappa'], a['kill'], a['njobs'], a['empty_mask'], a.get('etype', 0))
        finally:
            S.World = orig_world
        w = worlds[-1]
        return clause, list(w.trace), w.crashed_at
    finally:
        for mod, saved in ((BT, saved_bt), (BF, saved_bf)):
            for k in list(vars(mod)):
                if k not in saved:
                    delattr(mod, k)
            for k, v in saved.items():
                setattr(mod, k, v)


def _real_single(step, occurrence, kill, workdir):
    import pysam
    import singlecellmultiomics.universalBamTagger.bamtagmultiome as BT
    import singlecellmultiomics.bamProcessing.bamFunctions as BF
    from singlecellmultiomics.molecule import MoleculeIterator, NlaIIIMolecule
    from singlecellmultiomics.fragment import NlaIIIFragment
    src = '/repo/data/mini_nla_test.bam'
    inp = os.path.join(workdir, 'in.bam')
    shutil.copy(src, inp); shutil.copy(src + '.bai', inp + '.bai')
    out = os.path.join(workdir, 'out.bam')
    status_path = out.replace('.bam', '.status.txt')
    n_in = sum(1 for r in pysam.AlignmentFile(inp) if not r.is_secondary and not r.is_supplementary)
    counts = collections.Counter()
    snap = {}

    state = {'quiet': False, 'escaped': False}

    def hit(name):
        if state['quiet']:
            return
        i = counts[name]
        counts[name] += 1
        if step is not None and name == step and i == occurrence:
            if kill:
                snap['status'] = open(status_path).read() if os.path.exists(status_path) else None
                snap['complete'] = _complete(out, n_in)
                raise _Kill()
            raise _Inject('injected at %s#%d' % (name, i))

    class OutProxy:
        def __init__(self, real):
            self._r = real

        def write(self, rec):
            hit('write'); return self._r.write(rec)

        def close(self):
            hit('close'); return self._r.close()

        def __enter__(self):
            return self

        def __exit__(self, *a):
            self.close()

        def __getattr__(self, k):
            return getattr(self._r, k)

    class PysamProxy:
        def __getattr__(self, k):
            return getattr(pysam, k)

        def AlignmentFile(self, path, mode='rb', **kw):
            if 'w' in mode:
                hit('open_output')
                return OutProxy(pysam.AlignmentFile(path, mode, **kw))
            hit('open_input')
            return pysam.AlignmentFile(path, mode, **kw)

        def sort(self, *a):
            hit('sort'); return pysam.sort(*a)

        def index(self, *a):
            hit('index'); return pysam.index(*a)

    class OSProxy:
        path = os.path

        def __getattr__(self, k):
            return getattr(os, k)

        def remove(self, p):
            hit('remove_unsorted'); return os.remove(p)

    def mol_iter(alignments, **kw):
        it = MoleculeIterator(alignments, molecule_class=NlaIIIMolecule, fragment_class=NlaIIIFragment, **kw)
        for m in it:
            hit('iterate')
            wt = m.write_tags

            def write_tags(wt=wt):
                hit('tag'); return wt()
            m.write_tags = write_tags
            yield m
        if kw.get('contig') != '*':
            hit('iterate_end')

    saved = (BT.pysam, BF.pysam, BF.os, BF.add_readgroups_to_header)
    real_rehead = BF.add_readgroups_to_header

    def rehead(*a, **k):
        hit('reheader')
        state['quiet'] = True   # the model treats the header rewrite as one atomic step
        try:
            return real_rehead(*a, **k)
        finally:
            state['quiet'] = False
    proxy = PysamProxy()
    try:
        BT.pysam, BF.pysam, BF.os, BF.add_readgroups_to_header = proxy, proxy, OSProxy(), rehead
        BT.write_status(out, 'unfinished')
        try:
            BT.tag_multiome_single_thread(inp, out, molecule_iterator=mol_iter,
                                          molecule_iterator_args={'contig': None, 'start': None, 'end': None})
        except _Inject:
            state['escaped'] = True
        except _Kill:
            state['escaped'] = True
    finally:
        BT.pysam, BF.pysam, BF.os, BF.add_readgroups_to_header = saved
    if 'status' in snap:
        return snap['status'], snap['complete'], state['escaped']
    return (open(status_path).read() if os.path.exists(status_path) else None), _complete(out, n_in), state['escaped']


def _complete(out, n_in):
    import pysam
    if not os.path.exists(out) or not os.path.exists(out + '.bai'):
        return False
    try:
        with pysam.AlignmentFile(out) as f:
            last = (-1, -1)
            n = 0
            for r in f.fetch(until_eof=True):
                n += 1
                if not r.is_unmapped:
                    cur = (r.reference_id, r.reference_start)
                    if cur < last:
                        return False
                    last = cur
            return n == n_in
    except Exception:
        return False


def replay(args, outdir):
    a, lemma = args['cex'], args['lemma']
    clause, trace, crashed_at = _model_trace(lemma, a)
    if clause is None:
        return dict(reproduced=False, note='stub model does not reproduce')
    kind = clause.split('@')[0]
    if lemma == 'L3_failed_rerun':
        return _real_rerun(a, clause, crashed_at, trace[:-1].count(crashed_at) if crashed_at else 0)
    if lemma != 'L1_single_process':
        # multi-process driver: replay = concrete run of the real driver code over the step model (pool, htslib merge not replayable here)
        return dict(reproduced=True, signature='%s:%s' % (lemma, clause), what='multi-process driver: %s; steps %r' % (clause, trace))
    occurrence = trace[:-1].count(crashed_at) if crashed_at else 0
    d = tempfile.mkdtemp(prefix='c20', dir=os.environ.get('VERIF_SCRATCH') or None)
    try:
        status, complete, escaped = _real_single(crashed_at, occurrence, a['kill'], d)
    finally:
        shutil.rmtree(d, ignore_errors=True)
    ok = (status == 'Reached end. All ok!\n')
    real_clause = None
    if ok and not complete:
        real_clause = 'ok_status_incomplete_output'
    elif escaped and ok:
        real_clause = 'ok_status_after_failure'
    elif not escaped and not ok:
        real_clause = 'no_ok_status_after_clean_run'
    if real_clause is None:
        return dict(reproduced=False, note='real pipeline: status=%r complete=%r with fault at %s#%d' % (status, complete, crashed_at, occurrence))
    return dict(reproduced=True, signature='%s:%s@%s' % (lemma, real_clause, crashed_at),
                what='real tag_multiome_single_thread on mini_nla_test.bam with a %s injected at step %s (occurrence %d): status file says %r, output complete/sorted/indexed = %r'
                     % ('kill' if a['kill'] else 'failure', crashed_at, occurrence, status, complete))


def _real_rerun(a, clause, crashed_at, occurrence=0):
    """real command line twice onto the same -o: a good run, then a run that fails during set-up: at the model's crash step
    (input verification, removal of the old output, opening the input) when there is one, else through the unknown method"""
    import pysam
    import singlecellmultiomics.universalBamTagger.bamtagmultiome as BT
    seen = [0]

    def faulty(orig):
        def f(*x, **k):
            if crashed_at == 'open_input' and sys._getframe(1).f_globals.get('__name__') != BT.__name__:
                return orig(*x, **k)  # the model's open_input step is the open made by the tagger itself, not the one inside verify_and_fix_bam
            seen[0] += 1
            if seen[0] - 1 == occurrence:
                raise OSError(5, 'injected fault at %s' % crashed_at)
            return orig(*x, **k)
        return f
    target = {'verify_input': (BT, 'verify_and_fix_bam'), 'remove_old_output': (os, 'remove'), 'open_input': (pysam, 'AlignmentFile')}.get(crashed_at)
    from singlecellmultiomics.universalBamTagger.bamtagmultiome import run_multiome_tagging_cmd
    d = tempfile.mkdtemp(prefix='c20r', dir=os.environ.get('VERIF_SCRATCH') or None)
    try:
        src = '/repo/data/mini_nla_test.bam'
        inp = os.path.join(d, 'in.bam')
        shutil.copy(src, inp); shutil.copy(src + '.bai', inp + '.bai')
        out = os.path.join(d, 'out.bam')
        run_multiome_tagging_cmd([inp, '-method', 'nla', '-o', out])
        st = out.replace('.bam', '.status.txt')
        first = open(st).read()
        saved = getattr(target[0], target[1]) if target else None
        try:
            if target:
                setattr(target[0], target[1], faulty(saved))
            run_multiome_tagging_cmd([inp, '-method', 'bogus_method', '-o', out])
            return dict(reproduced=False, note='second run did not fail')
        except Exception:
            pass
        finally:
            if target:
                setattr(target[0], target[1], saved)
        status = open(st).read()
        exists = os.path.exists(out) and os.path.exists(out + '.bai')
    finally:
        shutil.rmtree(d, ignore_errors=True)
    if status == 'Reached end. All ok!\n' and not exists:
        return dict(reproduced=True, signature='L3_failed_rerun:stale_ok_status_output_gone',
                    what='real CLI: successful run (status %r), then a run failing in set-up (%s): status file still says %r while the output BAM was removed' % (first, crashed_at or 'unknown method', status))
    return dict(reproduced=False, note='real CLI: status %r output exists %r' % (status, exists))
