from replay.common import pysam_mk
from spec import c10 as S


def replay(args, outdir):
    import singlecellmultiomics.bamProcessing.bamToCountTable as CT
    import singlecellmultiomics.utils.binning as UB
    a, lemma = args['cex'], args['lemma']
    if lemma == 'L1_sliding_unbounded':
        fn = {'bamToCountTable': CT, 'utils.binning': UB}[a['which']].coordinate_to_sliding_bin_locations
        p, b, s = a.get('p', 0), a.get('b', 1), a.get('s', 1)
        start, end, sid, eid = (int(x) for x in fn(p, b, s))
        exp = S.windows(p, b, s)
        got = [(i * s, i * s + b) for i in range(sid, eid + 1)]
        clause = None
        if got != exp:
            clause = 'extra_window' if len(got) > len(exp) else 'missing_or_wrong_window'
        elif (start, end) != (sid * s, eid * s + b):
            clause = 'start_end'
        if clause is None:
            return dict(reproduced=False)
        return dict(reproduced=True, signature='L1_sliding_unbounded:%s:%s' % (a['which'], clause),
                    what='%s.coordinate_to_sliding_bin_locations(p=%d,b=%d,s=%d) -> windows %r, expected %r' % (a['which'], p, b, s, got, exp))
    if lemma == 'LF_float_cut_bounded':
        import math, re
        kind = a.get('kind')
        if 'A' in a:
            av, bv = a['A'], a['B']
        else:
            nums = [int(x[2:], 2) for x in re.findall(r'#b[01]+', a.get('model', ''))]
            if len(nums) != 2:
                return dict(reproduced=False, note='no model to replay')
            av, bv = nums
        got = {'floor': int(math.floor(av / bv)), 'trunc': int(av / bv), 'ceil': int(math.ceil(av / bv))}[kind]
        want = {'floor': av // bv, 'trunc': av // bv, 'ceil': -((-av) // bv)}[kind]
        if got == want:
            return dict(reproduced=False, note='CPython floats agree with integer arithmetic at A=%d B=%d' % (av, bv))
        return dict(reproduced=True, signature='LF_float_cut_bounded:%s' % kind, what='float %s(%d/%d) = %d but integer result %d' % (kind, av, bv, got, want))
    if lemma.startswith('L2_bins_list'):
        mod = CT if lemma.endswith('ct') else UB
        clause = S.check_bins_list(mod.coordinate_to_bins, a['p'], a['b'], a['s'])
        which = 'bamToCountTable' if lemma.endswith('ct') else 'utils.binning'
        if clause is None:
            return dict(reproduced=False)
        return dict(reproduced=True, signature='%s:%s' % (lemma, clause), what='%s.coordinate_to_bins(%d,%d,%d) = %r, expected %r' % (
            which, a['p'], a['b'], a['s'], mod.coordinate_to_bins(a['p'], a['b'], a['s']), S.windows(a['p'], a['b'], a['s'])))
    clause = S.check_assign_binned(pysam_mk, CT.assignReads, a['p'], a['b'], a['s'], a['keep'], a['reflen'])
    if clause is None:
        return dict(reproduced=False)
    return dict(reproduced=True, signature='L3_assign_binned:%s' % clause, what='assignReads binned: %s for %r' % (clause, a))


def replay_two_files(args, outdir):
    """real BAM files through the real create_count_table entry point"""
    import os, shutil, tempfile, argparse, pysam
    import singlecellmultiomics.bamProcessing.bamToCountTable as CT
    a = args['cex']
    d = tempfile.mkdtemp(prefix='c10f', dir=os.environ.get('VERIF_SCRATCH') or None)
    try:
        paths = {}
        for name, L, p, cell in (('a', a['LA'], a['pa'], 'cellA'), ('b', a['LB'], a['pb'], 'cellB')):
            path = os.path.join(d, name + '.bam')
            with pysam.AlignmentFile(path, 'wb', header={'HD': {'VN': '1.6', 'SO': 'coordinate'}, 'SQ': [{'SN': 'chr1', 'LN': max(L, 1)}]}) as o:
                r = pysam.AlignedSegment(o.header)
                r.query_name, r.reference_id, r.reference_start = 'q', 0, min(p, max(L - 1, 0))
                r.query_sequence, r.query_qualities, r.cigarstring, r.mapping_quality = 'A', [30], '1M', 60
                r.set_tag('SM', cell); r.set_tag('DS', p)
                o.write(r)
            pysam.index(path)
            paths[name] = path
        order = ['a', 'b'] if a['order'] else ['b', 'a']
        ns = S.make_args(a['b'], a['s'], False, 0, alignmentfiles=[paths[x] for x in order], contig=None, head=None, o=None, showtags=False,
                         featureTags=None, joinedFeatureTags='DS', sampleTags='SM', blacklist=None, noNames=True, bulk=False)
        import io, contextlib
        with contextlib.redirect_stdout(io.StringIO()):
            df = CT.create_count_table(ns, return_df=True)
        clause = None
        table = {}
        for col, rows in df.to_dict().items():
            cell = col if isinstance(col, str) else col[0]
            table[cell] = {tuple(int(x) for x in k): v for k, v in rows.items() if v == v and v != 0}
        for cell, p, L in (('cellA', a['pa'], a['LA']), ('cellB', a['pb'], a['LB'])):
            exp = {w: 1 for w in S.windows(p, a['b'], a['s']) if w[0] >= 0 and w[1] <= L}
            if table.get(cell, {}) != exp:
                clause = 'wrong_contig_length_used'
    finally:
        shutil.rmtree(d, ignore_errors=True)
    if clause is None:
        return dict(reproduced=False)
    return dict(reproduced=True, signature='L4_two_files_contig_lengths:%s' % clause, what='%s for %r' % (clause, a))
