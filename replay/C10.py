from replay.common import pysam_mk
from spec import c10 as S


def replay(args, outdir):
    import singlecellmultiomics.bamProcessing.bamToCountTable as CT
    import singlecellmultiomics.utils.binning as UB
    a, lemma = args['cex'], args['lemma']
    if lemma == 'L1_sliding_unbounded':
        fn = {'bamToCountTable': CT, 'utils.binning': UB}[a['which']].coordinate_to_sliding_bin_locations
        p, b, s = a.get('p', 0), a.get('b', 1), a.get('s', 1)
        start, end, sid, eid = (int(x) for x in fn(p, b, s))
        exp = S.windows(p, b, s)
        got = [(i * s, i * s + b) for i in range(sid, eid + 1)]
        clause = None
        if got != exp:
            clause = 'extra_window' if len(got) > len(exp) else 'missing_or_wrong_window'
        elif (start, end) != (sid * s, eid * s + b):
            clause = 'start_end'
        if clause is None:
            return dict(reproduced=False)
        return dict(reproduced=True, signature='L1_sliding_unbounded:%s:%s' % (a['which'], clause),
                    what='%s.coordinate_to_sliding_bin_locations(p=%d,b=%d,s=%d) -> windows %r, expected %r' % (a['which'], p, b, s, got, exp))
    if lemma.startswith('L2_bins_list'):
        mod = CT if lemma.endswith('ct') else UB
        clause = S.check_bins_list(mod.coordinate_to_bins, a['p'], a['b'], a['s'])
        which = 'bamToCountTable' if lemma.endswith('ct') else 'utils.binning'
        if clause is None:
            return dict(reproduced=False)
        return dict(reproduced=True, signature='%s:%s' % (lemma, clause), what='%s.coordinate_to_bins(%d,%d,%d) = %r, expected %r' % (
            which, a['p'], a['b'], a['s'], mod.coordinate_to_bins(a['p'], a['b'], a['s']), S.windows(a['p'], a['b'], a['s'])))
    clause = S.check_assign_binned(pysam_mk, CT.assignReads, a['p'], a['b'], a['s'], a['keep'], a['reflen'])
    if clause is None:
        return dict(reproduced=False)
    return dict(reproduced=True, signature='L3_assign_binned:%s' % clause, what='assignReads binned: %s for %r' % (clause, a))
