"""Replay on real gzip FASTQ files through the real loader / FastqIterator / FastqHandle (only the barcode parser stays a stub)."""
import gzip, io, os, shutil, tempfile, contextlib
from spec import c01 as S
from spec.layouts import LAYOUTS


def _real_run(name, nm, rejects, max_pairs, hdr_style, specs):
    import importlib
    H = importlib.import_module('harness.C01')          # PairParser + strategy table; its patches are undone below
    import singlecellmultiomics.modularDemultiplexer.demultiplexingStrategyLoader as DSL
    import singlecellmultiomics.fastqProcessing.fastqHandle as FHm
    import singlecellmultiomics.fastqProcessing.fastqIterator as FI
    import gzip as real_gzip
    FHm.gzip = real_gzip
    DSL.fastqIterator = FI
    d = tempfile.mkdtemp(prefix='c01', dir=os.environ.get('VERIF_SCRATCH') or None)
    try:
        pairs = [S.make_pair(i, hdr_style, sp[0], nm) for i, sp in enumerate(specs)]
        paths = []
        for m in range(nm):
            p = os.path.join(d, 'in_R%d.fastq.gz' % (m + 1))
            with gzip.open(p, 'wt') as f:
                for pr in pairs:
                    f.write('%s\n%s\n%s\n%s\n' % pr[m])
            paths.append(p)
        H.PARSER.schedule = [(sp[1], sp[2], sp[3]) for sp in specs]
        H.PARSER.current = 0
        # the pair currently processed is recognised by its cluster coordinate in the header of the record being demultiplexed
        orig = H.PairParser.getIndexCorrectedBarcodeAndHammingDistance
        strat = H.STRATS[name]
        real_demux = strat.demultiplex

        def demux(records, **kw):
            H.PARSER.current = S.cy_of(records[0].header) - 17000
            return real_demux(records, **kw)
        strat.demultiplex = demux
        try:
            target = FHm.FastqHandle(os.path.join(d, 'demux.'), pairedEnd=(nm == 2))
            rej = FHm.FastqHandle(os.path.join(d, 'rej.'), pairedEnd=(nm == 2)) if rejects else None
            with contextlib.redirect_stdout(io.StringIO()):
                result = H.LOADER.demultiplex(paths, maxReadPairs=max_pairs, strategies=[strat], library='LIB', targetFile=target, rejectHandle=rej)
            target.close()
            if rej is not None:
                rej.close()
        finally:
            del strat.demultiplex

        def rd(n):
            p = os.path.join(d, n)
            return gzip.open(p, 'rt').read() if os.path.exists(p) else ''
        sinks = {'demux.R1': rd('demux.R1.fastq.gz'), 'demux.R2': rd('demux.R2.fastq.gz'), 'rej.R1': rd('rej.R1.fastq.gz'), 'rej.R2': rd('rej.R2.fastq.gz')}
        L = LAYOUTS[name]
        predicted = None
        if not L.get('content'):
            predicted = ['demux' if ((nm in L['mates']) and ((sp[3] if name == 'RBSN' else sp[2]) or hdr_style == 2) and (sp[1] or L.get('bulk'))) else 'rej' for sp in specs]
        return S.accounting_clause(result, sinks, pairs, nm, rejects, max_pairs, name, predicted), sinks
    finally:
        shutil.rmtree(d, ignore_errors=True)


def replay(args, outdir):
    import importlib
    H = importlib.import_module('harness.C01')
    a, lemma = args['cex'], args['lemma']
    name = H.NAMES[a['si']]
    if lemma == 'L1_accounting':
        specs = [(a['c0'], a['b0'], a['i0'], a['g0']), (0, a['b1'], a['i1'], True)][:a['n']]
        conf = (name, a['nm'], a['rejects'], None, 0, specs)
    else:
        specs = [(0, a['ok'], a['ok'], True), (0, True, True, True), (0, a['ok'], True, True)]
        conf = (name, a['nm'], a['rejects'], (None if a['mrp'] == 0 else a['mrp']), a['hdr'], specs)
    try:
        clause, sinks = _real_run(*conf)
    except Exception as e:
        clause, sinks = 'raises.' + type(e).__name__, {}
    if clause is None:
        return dict(reproduced=False)
    return dict(reproduced=True, signature='%s:%s:%s' % (lemma, name, clause),
                what='%s: strategy %s mates=%d rejects=%r maxReadPairs=%r header style %d pairs(content,bc_ok,idx_ok,base_idx_ok)=%r; rejects R1 file: %r'
                     % (clause, name, conf[1], conf[2], conf[3], conf[4], specs, sinks.get('rej.R1', '')[:300]))


def replay_reader(args, outdir):
    """real FastqIterator over two real (plain text) files"""
    import singlecellmultiomics.fastqProcessing.fastqIterator as FI
    a = args['cex']
    n1, n2, blank_at = a['n1'], a['n2'], a['blank_at']
    lines = [['@a%d' % k if k % 4 == 0 else 'x%d' % k for k in range(n1)], ['@b%d' % k if k % 4 == 0 else 'y%d' % k for k in range(n2)]]
    if 0 <= blank_at < n1:
        lines[0][blank_at] = ''
    d = tempfile.mkdtemp(prefix='c01r', dir=os.environ.get('VERIF_SCRATCH') or None)
    try:
        paths = []
        for f in (0, 1):
            p = os.path.join(d, 'r%d.fastq' % f)
            with open(p, 'w') as h:
                h.write(''.join(l + '\n' for l in lines[f]))
            paths.append(p)
        got = list(FI.FastqIterator(*paths))
    finally:
        shutil.rmtree(d, ignore_errors=True)
    exp, k = [], 0
    while True:
        recs = []
        for f in (0, 1):
            ls = lines[f][4 * k:4 * k + 4]
            recs.append(FI.FastqRecord(*(ls + [''] * (4 - len(ls)))))
        if any(len(r.header) == 0 for r in recs):
            break
        exp.append(tuple(recs)); k += 1
    if got == exp:
        return dict(reproduced=False)
    clause = 'stops_early' if len(got) < len(exp) else ('reads_past_end' if len(got) > len(exp) else 'mates_mispaired')
    return dict(reproduced=True, signature='L2_lockstep_reader:%s' % clause,
                what='FastqIterator over files of %d / %d lines (empty line at %d of file 1): %d records, expected %d' % (n1, n2, blank_at, len(got), len(exp)))


def replay_per_cell(args, outdir):
    """real gzip per-cell files (optionally pre-existing from an 'earlier run'), real loader / FastqHandle / HandleLimiter"""
    import importlib, gzip as real_gzip
    H = importlib.import_module('harness.C01')
    import singlecellmultiomics.modularDemultiplexer.demultiplexingStrategyLoader as DSL
    import singlecellmultiomics.fastqProcessing.fastqHandle as FHm
    import singlecellmultiomics.fastqProcessing.fastqIterator as FI
    import singlecellmultiomics.pyutils.handlelimiter as HL
    import builtins, time as real_time
    a = args['cex']
    FHm.gzip, HL.gzip, HL.time = real_gzip, real_gzip, real_time
    if 'open' in vars(HL):
        del HL.open
    DSL.fastqIterator = FI
    name = 'NLAIII384C8U3'
    strat = H.STRATS[name]
    specs = [(0, a['b0'], a['i0'], True), (0, a['b1'], a['i1'], True)]
    pairs = [S.make_pair(i, 0, 0, 2) for i in range(2)]
    d = tempfile.mkdtemp(prefix='c01c', dir=os.environ.get('VERIF_SCRATCH') or None)
    try:
        paths = []
        for m in range(2):
            p = os.path.join(d, 'in_R%d.fastq.gz' % (m + 1))
            with gzip.open(p, 'wt') as f:
                for pr in pairs:
                    f.write('%s\n%s\n%s\n%s\n' % pr[m])
            paths.append(p)
        cellfile = os.path.join(d, 'demux.%s.%s.%%s.fastq.gz' % (H.PARSER.index, name))
        if a['stale']:
            for mate in ('R1', 'R2'):
                with gzip.open(cellfile % mate, 'wt') as f:
                    f.write('@old 17099\nT\n+\nI\n')
        H.PARSER.schedule = [(sp[1], sp[2], sp[3]) for sp in specs]
        real_demux = strat.demultiplex

        def demux(records, **kw):
            H.PARSER.current = S.cy_of(records[0].header) - 17000
            return real_demux(records, **kw)
        strat.demultiplex = demux
        try:
            target = FHm.FastqHandle(os.path.join(d, 'demux'), pairedEnd=True, single_cell=True, maxHandles=a['maxh'])
            if a.get('prune', 0) > 0:
                target.handles.pruneEvery = a['prune']
            with contextlib.redirect_stdout(io.StringIO()):
                H.LOADER.demultiplex(paths, strategies=[strat], library='LIB', targetFile=target, rejectHandle=None)
            target.close()
        finally:
            del strat.demultiplex
        accepted = [17000 + i for i, sp in enumerate(specs) if sp[1] and sp[2]]
        clause = None
        ids = []
        for mate in (('R1', 'R2') if accepted else ()):
            txt = gzip.open(cellfile % mate, 'rt').read() if os.path.exists(cellfile % mate) else ''
            ids = [S.cy_of(x[0]) for x in S.parse_sink(txt)]
            if ids != accepted:
                clause = 'per_cell_content'
    finally:
        shutil.rmtree(d, ignore_errors=True)
    if clause is None:
        return dict(reproduced=False)
    return dict(reproduced=True, signature='L1_per_cell_output:%s' % clause, what='per-cell output: %s for %r (records found %r, expected %r)' % (clause, a, ids, accepted))
