from replay.common import pysam_mk
from spec import c04 as S


def _store(name):
    import pysam
    seg = pysam.AlignedSegment()
    seg.query_name = name
    return seg.query_name


def replay(args, outdir):
    from singlecellmultiomics.universalBamTagger.universalBamTagger import QueryNameFlagger
    from singlecellmultiomics.modularDemultiplexer.demultiplexModules.NLAIII import NLAIII_384w_c8_u3
    from singlecellmultiomics.modularDemultiplexer.demultiplexModules.CELSeq2 import CELSeq2_c8_u6
    a, lemma = args['cex'], args['lemma']
    exc = None
    try:
        if lemma == 'L1_codec_unbounded':
            code = a.get('ord_phred', 33)
            if code > 0x10FFFF:
                code = 0x10FFFF
            clause = S.codec_clause(chr(code))
            a = dict(a, char=repr(chr(code)))
        elif lemma == 'L1_codec_chars':
            clause = S.codec_clause(a['q'])
        elif lemma == 'L2_field_roundtrip':
            clause = S.field_roundtrip_clause(pysam_mk, QueryNameFlagger, a['field'], S.POOL[a['vi']], S.BIS[a['bi']], S.RQS[a['ri']])
        elif lemma == 'L5_flagger_sequence':
            clause = S.flagger_sequence_clause(pysam_mk, QueryNameFlagger, [a['i0'], a['i1'], a['i2']])
        elif lemma == 'L4_pipeline_pools':
            clause = S.pipeline_clause(pysam_mk, QueryNameFlagger, [NLAIII_384w_c8_u3, CELSeq2_c8_u6][a['strategy']], a['ui'], a['qi'], a['li'], a['ii'], a['bi'])
        else:
            clause = S.length_guard_clause(a['n'], store=_store)
    except Exception as e:
        clause = 'raises.' + type(e).__name__
        exc = repr(e)
    if clause is None:
        return dict(reproduced=False)
    return dict(reproduced=True, signature='%s:%s' % (lemma, clause), what='%s for %r %s' % (clause, a, exc or ''))
