"""C03 - barcode correction assigns the unique nearest whitelisted barcode or nothing.
Real code: hamming_circle, BarcodeParser.addBarcode/expand/getIndexCorrectedBarcodeAndHammingDistance/__getitem__/
parse_pending_barcode_file_of_alias/parse_barcode_file/path_to_barcode_alias."""
import singlecellmultiomics.barcodeFileParser.barcodeFileParser as BFP
from spec import c03 as S
from vlib.sym import pick

A = S.ALPHA
S2 = S.all_strings(2)
S3 = S.all_strings(3)
IDX = [0, 7, 400]


def _l1_sphere(a: int, b: int, c: int, d: int, L: int, n: int) -> bool:
    """
    pre: 0 <= a <= 4 and 0 <= b <= 4 and 0 <= c <= 4 and 0 <= d <= 4
    pre: 1 <= L <= 4
    pre: 0 <= n <= 2
    post: _
    """
    s = (pick(A, a) + pick(A, b) + pick(A, c) + pick(A, d))[:L]
    return S.sphere_clause(BFP.hamming_circle, s, n) is None


def _l2_resolution2(W: int, w0: int, w1: int, w2: int, k: int) -> bool:
    """
    pre: 1 <= W <= 3
    pre: 0 <= w0 < 25 and 0 <= w1 < 25 and 0 <= w2 < 25
    pre: 0 <= k <= 2
    post: _
    """
    wl = [(pick(S2, w0), 1), (pick(S2, w1), 2), (pick(S2, w2), 3)][:W]
    return S.resolution_clause(wl, k, 2) is None


def _l2_resolution3(w0: int, w1: int, k: int) -> bool:
    """
    pre: 0 <= w0 < 125 and 0 <= w1 < 125
    pre: 0 <= k <= 2
    post: _
    """
    wl = [(pick(S3, w0), 7), (pick(S3, w1), 'cellB')]
    return S.resolution_clause(wl, k, 3) is None


class _MemFiles:
    def __init__(self, files):
        self.files, self.opened = files, []

    def open(self, path, mode='r'):
        self.opened.append(path)
        lines = self.files[path]

        class H:
            def __enter__(s):
                return iter(lines)

            def __exit__(s, *a):
                return False
        return H()


def _l3_lazy(k: int, first: int, use_getitem: bool, q1: int) -> bool:
    """
    pre: 0 <= k <= 1
    pre: 0 <= first <= 1
    pre: 0 <= q1 < 25
    post: _
    """
    q2 = 7
    files = {'dir/aliasA.bc': ['AC 1\n', 'GT 2\n'], 'dir/aliasB.bc': ['AA\tx\n', 'CC\ty\n']}
    mem = _MemFiles(files)
    BFP.open = mem.open
    p = S.new_parser(k, pending={'aliasA': 'dir/aliasA.bc', 'aliasB': 'dir/aliasB.bc'})
    wl = {'aliasA': [('AC', 1), ('GT', 2)], 'aliasB': [('AA', 'x'), ('CC', 'y')]}
    order = ['aliasA', 'aliasB'] if first == 0 else ['aliasB', 'aliasA']
    if use_getitem:
        m = p[order[0]]
        if m != dict(wl[order[0]]):
            return False
    for alias in order + order:
        for qi in (q1, q2):
            q = pick(S2, qi)
            if tuple(p.getIndexCorrectedBarcodeAndHammingDistance(alias=alias, barcode=q)) != S.oracle(wl[alias], k, q):
                return False
    # each file is read exactly once and nothing is pending afterwards
    if sorted(mem.opened) != sorted(['dir/aliasA.bc'] * 2 + ['dir/aliasB.bc'] * 2):   # parse_barcode_file scans a file twice (format detection + load)
        return False
    if p.pending_files:
        return False
    # an alias that does not exist answers nothing
    return tuple(p.getIndexCorrectedBarcodeAndHammingDistance(alias='nope', barcode='AC')) == (None, None, None)


def _l4_formats(fmt: int, n: int, i0: int, i1: int, i2: int, named: bool, tab: bool) -> bool:
    """
    pre: 0 <= fmt <= 2
    pre: 1 <= n <= 3
    pre: 0 <= i0 <= 2 and 0 <= i1 <= 2 and 0 <= i2 <= 2
    post: _
    """
    bcs = ['ACGT', 'TTGA', 'CANN'][:n]
    idx = [pick(IDX, i0), pick(IDX, i1), pick(IDX, i2)][:n]
    names = ['%s' % i if not named else 'c%s' % i for i in idx]
    sep = '\t' if tab else ' '
    if fmt == 0:      # barcode first
        lines = [b + sep + nm + '\n' for b, nm in zip(bcs, names)]
        want = {b: (i if not named else 'c%s' % i) for b, i in zip(bcs, idx)}
    elif fmt == 1:    # index first
        lines = [nm + sep + b + '\n' for b, nm in zip(bcs, names)]
        want = {b: (i if not named else 'c%s' % i) for b, i in zip(bcs, idx)}
    else:             # single column: index = line number (1-based)
        lines = [b + '\n' for b in bcs]
        want = {b: k + 1 for k, b in enumerate(bcs)}
    mem = _MemFiles({'d/my_alias.bc': lines})
    BFP.open = mem.open
    p = S.new_parser(0)
    p.parse_barcode_file('d/my_alias.bc')
    return dict(p.barcodes['my_alias']) == want


_T = {'quick': 200, 'thorough': 1200}
def _rng(var, lo, hi):
    return '%d <= %s < %d' % (lo, var, hi)


_sph = lambda L: ['L == %d' % L] + (['d == 0'] if L < 4 else []) + (['c == 0'] if L < 3 else []) + (['b == 0'] if L < 2 else [])
LEMMAS = [
    dict(name='L1_sphere', fn='_l1_sphere', engine='E1', timeout=_T, replay='replay.C03:replay',
         cases={'quick': [dict(id='L%d' % L, pre=_sph(L)) for L in (1, 2)] + [dict(id='L3_a%d_n%d' % (a, n), pre=_sph(3) + ['a == %d' % a, 'n == %d' % n]) for a in range(5) for n in range(3)],
                'thorough': [dict(id='L%d' % L, pre=_sph(L)) for L in (1, 2)] + [dict(id='L3_a%d_n%d' % (a, n), pre=_sph(3) + ['a == %d' % a, 'n == %d' % n]) for a in range(5) for n in range(3)] +
                            [dict(id='L4_a%d_b%d' % (a, b), pre=['L == 4', 'a == %d' % a, 'b == %d' % b]) for a in range(5) for b in range(5)]}),
    dict(name='L2_resolution_len2', fn='_l2_resolution2', engine='E1', timeout=_T, replay='replay.C03:replay',
         cases={'quick': [dict(id='W1', pre=['W == 1', 'w1 == 0', 'w2 == 0'])] +
                         [dict(id='W2_k%d_%d' % (k, a), pre=['W == 2', 'w2 == 0', 'k == %d' % k, _rng('w0', 5 * a, 5 * a + 5)]) for k in (0, 1, 2) for a in range(5)] +
                         [dict(id='W3_k%d_w0_%d' % (k, a), pre=['W == 3', 'k == %d' % k, 'w0 == %d' % a, 'w1 <= w2']) for k in (1, 2) for a in (0, 7)],
                'thorough': [dict(id='W1', pre=['W == 1', 'w1 == 0', 'w2 == 0'])] +
                            [dict(id='W2_k%d_%d' % (k, a), pre=['W == 2', 'w2 == 0', 'k == %d' % k, _rng('w0', 5 * a, 5 * a + 5)]) for k in (0, 1, 2) for a in range(5)] +
                            [dict(id='W3_k%d_%d' % (k, a), pre=['W == 3', 'k == %d' % k, 'w0 == %d' % a]) for k in (1, 2) for a in range(25)]}),
    dict(name='L2_resolution_len3', fn='_l2_resolution3', engine='E1', timeout=_T, replay='replay.C03:replay', tiers=['thorough'],
         cases={'thorough': [dict(id='k%d_%d' % (k, a), pre=['k == %d' % k, _rng('w0', 5 * a, 5 * a + 5)]) for k in (1, 2) for a in range(25)]}),
    dict(name='L3_lazy_lookup', fn='_l3_lazy', engine='E1', timeout=_T, replay='replay.C03:replay',
         cases={'quick': [dict(id='k%d_g%d' % (k, g), pre=['k == %d' % k, 'use_getitem == %s' % bool(g)]) for k in (0, 1) for g in (0, 1)]}),
    dict(name='L4_file_formats', fn='_l4_formats', engine='E1', timeout=_T, replay='replay.C03:replay',
         cases={'quick': [dict(id='fmt%d' % f, pre=['fmt == %d' % f]) for f in (0, 1, 2)]}),
]

PROPERTY = dict(
    functions=['barcodeFileParser.hamming_circle', 'BarcodeParser.addBarcode / expand / getIndexCorrectedBarcodeAndHammingDistance / __getitem__ / '
               'parse_pending_barcode_file_of_alias / parse_barcode_file / path_to_barcode_alias'],
    bounds={'quick': dict(sphere='every string over ACGTN of length 1..3, distance 0..2', resolution='every whitelist of 1..2 barcodes of length 2 over ACGTN (incl. duplicates, N) x k 0..2 x all 25 queries; three-barcode whitelists with the first barcode AA or CG',
                          lazy='2 lazily loaded aliases, both access orders, via lookup and via parser[alias], k 0..1', formats='1..3 lines, barcode-first / index-first / single column, tab or blank, numeric index from {0,7,400} or named'),
            'thorough': dict(sphere='length 4 too', resolution='+ every whitelist of 3 length-2 barcodes, every pair of length-3 barcodes (15625 whitelists) x k 1..2 x all 125 queries')},
    outside=['barcodes longer than 3 (the sphere lemma + resolution over arbitrary geometry are size-parametric: argument only)', 'letters other than ACGTN', 'the shipped whitelist files (read only by replays)', 'expand() called again on an alias after more barcodes were added (stale entries)', 'index names made only of the letters A C G T N X (column order heuristic of parse_barcode_file)', 'blank lines in barcode files'],
    assumptions=['whitelists / queries are selected by symbolic indices into the complete set of strings of the stated length, so each path runs the real parser concretely; the solver enumerates the index space exhaustively',
                 'builtin open() inside barcodeFileParser replaced by an in-memory file table (L3/L4)'],
    trusted=['spec/c03.py brute-force oracle'],
)
