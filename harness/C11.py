"""C11 - count tables count exactly the reads passing the filters, at documented weights.
Real code: bamToCountTable.read_should_be_counted / read_has_alternative_hits_to_non_alts / assignReads / readTag, baseDemultiplexMethods.metaFromRead."""
import collections
from stubs.fakeread import FakeRead
from spec import c11 as S
from vlib.sym import pick
import singlecellmultiomics.bamProcessing.bamToCountTable as CT
from singlecellmultiomics.modularDemultiplexer.baseDemultiplexMethods import metaFromRead


def _read(read1, paired, proper, unmapped, mate_unmapped, qcfail, duplicate, mapq, ci, rr, nm_present, nm, xi, mi, start, nh=None):
    cig = pick(S.CIGARS, ci)
    r = dict(read1=read1, read2=(paired and not read1), paired=paired, proper=proper, unmapped=unmapped, mate_unmapped=mate_unmapped,
             qcfail=qcfail, duplicate=duplicate, mapq=mapq, cigar=cig, RR=('reason' if rr else None), NM=(nm if nm_present else None),
             XA=pick(S.XAS, xi), mp=pick(S.MPS, mi), start=start, NH=nh)
    r['end'] = S.ref_end(r)
    return r


class _LazyVal:
    """tag value that answers comparisons with a (symbolic) boolean instead of being a concrete string"""
    def __init__(self, eq_map):
        self.eq_map = eq_map

    def __eq__(self, other):
        return self.eq_map.get(other, False)

    def __ne__(self, other):
        return self.eq_map.get(other, False) == False   # noqa: E712


class _LazyCigar:
    def __init__(self, ci):
        self.ci = ci

    def __contains__(self, ch):
        if ch == 'I':
            return self.ci == 2
        if ch == 'D':
            return self.ci == 3
        if ch == 'S':
            return (self.ci == 1) | (self.ci == 4)
        return False


class LazyRead:
    """environment stub answering the filter's questions lazily (DESIGN rule 7): nothing forks before the code asks"""
    def __init__(self, **kw):
        self.__dict__.update(kw)
        self.reference_name = 'chr1'
        self._cigar = _LazyCigar(kw['ci'])

    @property
    def cigarstring(self):
        # pysam: a record that is not aligned has no CIGAR (cigarstring is None)
        if self.is_unmapped:
            return None
        return self._cigar

    @property
    def reference_end(self):
        return self.reference_start + 10

    def has_tag(self, t):
        return {'mp': self.mi != 0, 'NM': self.nm_present, 'XA': (self.xi != 0), 'RR': self.rr}.get(t, False)

    def get_tag(self, t):
        if t == 'mp':
            return _LazyVal({'unique': self.mi == 1})
        if t == 'NM':
            return self.nm
        if t == 'XA':
            return pick(S.XAS, self.xi)
        if t == 'RR':
            return 'reason'
        raise KeyError(t)


_DECOY = (1000000, 1000001)     # a second blacklisted region of the same contig, listed FIRST although it lies (mostly) to the right: BED files need not be sorted


def _l1_filter(read1: bool, read2: bool, proper: bool, unmapped: bool, qcfail: bool, duplicate: bool, mapq: int,
               ci: int, rr: bool, nm_present: bool, nm: int, xi: int, mi: int, start: int,
               r1only: bool, r2only: bool, filterMP: bool, minMQ: int, ppo: bool, no_indels: bool, mbe_set: bool, mbe: int, no_soft: bool,
               filterXA: bool, dedup: bool, bl: bool, bs: int, bw: int) -> bool:
    """
    pre: 0 <= mapq <= 255 and 0 <= minMQ <= 255
    pre: 0 <= ci <= 4 and 0 <= xi <= 4 and 0 <= mi <= 2
    pre: 0 <= nm and 0 <= mbe
    pre: 0 <= start and 0 <= bs and 1 <= bw
    pre: not (read1 and read2)
    post: _
    """
    read = LazyRead(is_read1=read1, is_read2=read2, is_proper_pair=proper, is_unmapped=unmapped, is_qcfail=qcfail, is_duplicate=duplicate,
                    mapping_quality=mapq, ci=ci, rr=rr, nm_present=nm_present, nm=nm, xi=xi, mi=mi, reference_start=start)
    o = dict(r1only=r1only, r2only=r2only, filterMP=filterMP, minMQ=minMQ, proper_pairs_only=ppo, no_indels=no_indels,
             max_base_edits=(mbe if mbe_set else None), no_softclips=no_soft, filterXA=filterXA, dedup=dedup)
    got = CT.read_should_be_counted(read, S.make_args(o), ({'chr1': [_DECOY, (bs, bs + bw)], 'chr9': [(0, 10 ** 9)]} if bl else None))
    v = dict(unmapped=unmapped, qcfail=qcfail, mapq=mapq, duplicate=duplicate, has_RR=rr, read1=read1, read2=read2, proper=proper,
             has_indel=(ci == 2) | (ci == 3), has_soft=(ci == 1) | (ci == 4), nm_present=nm_present, nm=nm,
             xa_hits_primary=(xi == 1) | (xi == 3), mp_unique=(mi == 1), start=start, end=start + 10)
    so = dict(o, mbe_set=mbe_set, mbe=mbe, bl=bl, bs=bs, be=bs + bw, decoy=_DECOY)
    want = S.passes_sym(v, so)
    return (got == True) == want   # noqa: E712


def _l2_weight(read1: bool, paired: bool, mate_unmapped: bool, xi: int, nh_present: bool, nh: int,
               r1only: bool, r2only: bool, dndf: bool, dmm: bool, joined: bool, gi: int) -> bool:
    """
    pre: 0 <= xi <= 3
    pre: 0 <= nh <= 3
    pre: 0 <= gi <= 2
    pre: not (r1only and r2only)
    post: _
    """
    r = _read(read1, paired, True, False, mate_unmapped, False, False, 60, 0, False, False, 0, xi, 0, 100, nh=(pick([1, 2, 3, 6], nh) if nh_present else None))
    gene = pick(['GeneA', 'GeneB,GeneC', None], gi)
    r['GN'] = gene
    o = dict(r1only=r1only, r2only=r2only, filterMP=False, minMQ=0, proper_pairs_only=False, no_indels=False, max_base_edits=None,
             no_softclips=False, filterXA=False, dedup=False, doNotDivideFragments=dndf, divideMultimapping=dmm)
    table = collections.defaultdict(collections.Counter)
    n = CT.assignReads(S.make_read(FakeRead, r), table, S.make_args(o), joined, ['GN'], ['SM'])
    counted = S.passes(r, o, None)
    if not counted:
        return n == 0 and len(table) == 0
    w = S.weight(r, o)
    key = str(gene)            # features are recorded by their value ('None' when the tag is absent)
    if n != 1 or set(table.keys()) != {('lib_1',)}:
        return False
    row = {k: v for k, v in table[('lib_1',)].items() if v != 0}
    return row == {key: w}


def _l2_byvalue(vi: int, r1only: bool) -> bool:
    """
    pre: 0 <= vi <= 3
    post: _
    """
    joined = True   # by-value counting is documented for joined feature tags
    r = _read(True, True, True, False, False, False, False, 60, 0, False, False, 0, 0, 0, 100)
    r['vl'] = pick([3, '2.5', 'x', None], vi)
    r['GN'] = 'GeneA'
    o = dict(r1only=r1only, r2only=False, filterMP=False, minMQ=0, proper_pairs_only=False, no_indels=False, max_base_edits=None,
             no_softclips=False, filterXA=False, dedup=False, doNotDivideFragments=False, divideMultimapping=False)
    table = collections.defaultdict(collections.Counter)
    CT.assignReads(S.make_read(FakeRead, r), table, S.make_args(o, byValue='vl'), joined, ['GN', 'vl'], ['SM'])
    exp = pick([3.0, 2.5, 0, 0], vi)
    row = {k: v for k, v in table[('lib_1',)].items() if v != 0}
    if exp == 0:
        return row == {}
    return list(row.values()) == [exp] and len(row) == 1


def _l3_meta(tag: int, has_bi: bool, has_BI: bool, has_DS: bool) -> bool:
    """
    pre: 0 <= tag <= 4
    post: _
    """
    tags = {}
    if has_bi:
        tags['bi'] = 5
    if has_BI:
        tags['BI'] = 7
    if has_DS:
        tags['DS'] = 0
    read = FakeRead(reference_name='chr7', reference_start=3, cigartuples=[(0, 4)], seq='ACGT', qual='IIII', tags=tags, mapping_quality=42)
    t = pick(['chrom', 'bi', 'BI', 'DS', 'mapping_quality'], tag)
    got = metaFromRead(read, t)
    if t == 'chrom':
        return got == 'chr7'
    if t == 'bi':
        return got == (5 if has_bi else (7 if has_BI else None))
    if t == 'BI':
        return got == (7 if has_BI else (5 if has_bi else None))
    if t == 'DS':
        return got == (0 if has_DS else None) and (got is not None) == has_DS
    return got == 42


_T = {'quick': 240, 'thorough': 1200}
_split = [dict(id='r1%d_r2%d_dd%d_mp%d_xa%d_bl%d' % (a, b, c, d, e, f), pre=['r1only == %s' % bool(a), 'r2only == %s' % bool(b), 'dedup == %s' % bool(c), 'filterMP == %s' % bool(d),
                                                                          'filterXA == %s' % bool(e), 'bl == %s' % bool(f)])
          for a in (0, 1) for b in (0, 1) for c in (0, 1) for d in (0, 1) for e in (0, 1) for f in (0, 1)]
# the heaviest corner (blacklist + XA + dedup all on) is split once more on --no_indels
_split = [c2 for c in _split for c2 in ([c] if not ('dedup == True' in c['pre'] and 'filterXA == True' in c['pre'] and 'bl == True' in c['pre'])
                                         else [dict(id=c['id'] + '_ni%d' % g, pre=c['pre'] + ['no_indels == %s' % bool(g)]) for g in (0, 1)])]
LEMMAS = [
    dict(name='L1_filter', fn='_l1_filter', engine='E1', timeout=_T, replay='replay.C11:replay',
         cases={'quick': [c for c in _split if 'r2only == False' in c['pre']], 'thorough': _split}),
    dict(name='L2_weight_key', fn='_l2_weight', engine='E1', timeout=_T, replay='replay.C11:replay',
         cases={'quick': [dict(id='joined%d_dmm%d' % (j, d), pre=['joined == %s' % bool(j), 'dmm == %s' % bool(d)]) for j in (0, 1) for d in (0, 1)]}),
    dict(name='L2_by_value', fn='_l2_byvalue', engine='E1', timeout=_T, replay='replay.C11:replay'),
    dict(name='L3_meta_lookup', fn='_l3_meta', engine='E1', timeout=_T, replay='replay.C11:replay'),
]

PROPERTY = dict(
    functions=['bamToCountTable.read_should_be_counted', 'bamToCountTable.read_has_alternative_hits_to_non_alts', 'bamToCountTable.assignReads (non-binned branch)',
               'bamToCountTable.readTag', 'baseDemultiplexMethods.metaFromRead'],
    bounds=dict(filter='one read: all flags symbolic, MAPQ / minMQ 0..255, NM / max_base_edits unbounded, CIGAR from 5 shapes (M, S+M, M+I+M, M+D+M, M+S), XA from 5 shapes, mp from 3, '
                       'read start and one blacklist interval unbounded; all 2^10 switch combinations in the thorough tier (64 sub-processes); quick tier: the 2^9 combinations without --r2only',
                weights='one read: pairing flags, XA shapes, NH in {1,2,3,6}, mate selection, fragment division, multimapping division, joined / single feature tags, feature value present/absent/list',
                by_value='integer, decimal string, non numeric, absent'),
    outside=['pandas export', '--head / --showtags', 'splitFeatures', 'contig selection and BED regions (file iteration)', 'XA tags without the trailing semicolon BWA writes'],
    assumptions=['spec/c11.py is the specification (from the property text and the option help strings)',
                 'blacklist semantics: a read is excluded when its aligned span [reference_start, reference_end) overlaps a blacklisted half-open BED interval', 'an unmapped record has no CIGAR (cigarstring None), as pysam reports it',
                 'multimapping hits = alternative hits listed in XA + the primary alignment'],
    trusted=['stubs/fakeread.py', 'spec/c11.py'],
)
