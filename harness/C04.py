"""C04 - read-name encoding round trip. Real code: phredToFastqHeaderSafeQualities / fastqHeaderSafeQualitiesToPhred,
UmiBarcodeDemuxMethod.demultiplex (NLAIII384C8U3, CS2C8U6), TaggedRecord.__init__/fromRawFastq/_parse_illumina_header/asFastq/
fromTaggedBamRecord/addTagByTag/tagPysamRead/asIlluminaHeader, QueryNameFlagger.digest."""
import ast, inspect, string, textwrap
import z3
from vlib import py2smt as T
from stubs.fakeread import FakeRead
from spec import c04 as S
from vlib.sym import pick
import singlecellmultiomics.modularDemultiplexer.baseDemultiplexMethods as BDM
from singlecellmultiomics.universalBamTagger.universalBamTagger import QueryNameFlagger
from singlecellmultiomics.modularDemultiplexer.demultiplexModules.NLAIII import NLAIII_384w_c8_u3
from singlecellmultiomics.modularDemultiplexer.demultiplexModules.CELSeq2 import CELSeq2_c8_u6


# rule 9: `except BaseException` in the header parser swallows CrossHair's control-flow exceptions -> Exception (harness runs only)
def _relax_base_exception(mod, clsname, names):
    cls = getattr(mod, clsname)
    for n in names:
        fn = getattr(cls, n)
        fn = getattr(fn, '__relaxed_orig__', fn)
        src = textwrap.dedent(inspect.getsource(fn)).replace('except BaseException', 'except Exception')
        loc = {}
        exec(compile(src, '<relaxed:%s>' % n, 'exec'), fn.__globals__, loc)
        loc[n].__relaxed_orig__ = fn
        setattr(cls, n, loc[n])


_relax_base_exception(BDM, 'TaggedRecord', ['_parse_illumina_header', 'fromRawFastq'])
# regex cut: fqSafe's regex is replaced by a per-character filter whose alphabet is READ FROM THE LIVE REGEX at load
# (every code point below 0x3000 the regex keeps); validated against the live regex on strings in preflight
_SAFE = frozenset(chr(cp) for cp in range(0, 0x3000) if BDM.fastqCleanerRegex.sub('', chr(cp)) == chr(cp))


def _fqsafe(s) -> str:
    return ''.join(c for c in s if c in _SAFE)


_FQSAFE_REAL = BDM.fqSafe
BDM.fqSafe = _fqsafe


def preflight():
    import random
    rnd = random.Random(4)
    alphabet = [chr(cp) for cp in list(range(32, 127)) + [0xe9, 0x3b1, 0x2028, 0x3001, 0x1F600]]
    for _ in range(3000):
        t = ''.join(rnd.choice(alphabet) for _ in range(rnd.randint(0, 12)))
        assert _FQSAFE_REAL(t) == _fqsafe(t) or any(ord(c) >= 0x3000 for c in t), repr(t)
    kept = ''.join(sorted(c for c in _SAFE))
    return dict(fqsafe_filter_vs_regex='identical on 3000 random strings; alphabet kept by the live regex: %r' % kept)


def l1_codec_e2(tier='quick', case=None, seed=0):
    """E2: the index expression of the method-3 encoder, cut from the live source, is within the alphabet for every
    integer code point >= 33 (unbounded above), and never decreasing / saturating."""
    fn = T.get_fndef(BDM.phredToFastqHeaderSafeQualities)
    comps = [n for n in ast.walk(fn) if isinstance(n, ast.ListComp)]
    target = None
    for c in comps:
        if isinstance(c.elt, ast.Subscript) and ast.unparse(c.elt.value) == 'string.ascii_letters':
            target = c.elt.slice
    if target is None:
        return dict(verdict='error', detail='anchor: string.ascii_letters[...] list comprehension not found')
    o = z3.Int('ord_phred')
    tr = T.Translator(env={'string.ascii_letters': 'LETTERS'}, calls={'ord': lambda x: o, 'len': lambda x: len(string.ascii_letters)})
    idx = tr.ev(target, {'phred': 'P'})
    n = len(string.ascii_letters)
    # validation of the encoding against the real encoder for codes whose index is in range
    bad = pts = 0
    for code in range(33, 33 + n - 1):
        pts += 1
        enc = z3.simplify(z3.substitute(idx, (o, z3.IntVal(code)))).as_long()
        if string.ascii_letters[enc] != BDM.phredToFastqHeaderSafeQualities(chr(code)):
            bad += 1
    if bad:
        return dict(verdict='error', detail='translator validation failed (%d/%d)' % (bad, pts))
    r0, m0, _ = T.solve([o >= 33, idx >= 0], seed=seed)
    if r0 != 'sat':
        return dict(verdict='vacuous')
    res, tot = [], 0.0
    for name, goal in (('in_range', z3.Or(idx < 0, idx > n - 1)), ('saturating', z3.And(o <= 33 + n - 1, idx != o - 33)),
                       ('top', z3.And(o > 33 + n - 1, idx != n - 1))):
        r, model, dt = T.solve([o >= 33, goal], seed=seed)
        tot += dt
        res.append((name, r, model))
    out = dict(solver_calls=len(res) + 1, solver_s=round(tot, 3), paths=0, nontrivial=pts + len(res),
               detail='; '.join('%s=%s' % (a, b) for a, b, _ in res) + ' | ' + T.cross_summary(),
               samples=[dict(lemma='L1_codec_unbounded', kind='index expression (from source)', expr=ast.unparse(target)),
                        dict(lemma='L1_codec_unbounded', kind='reachability witness', input=m0)])
    sat = [x for x in res if x[1] == 'sat']
    if sat:
        out.update(verdict='refuted', cex=dict(sat[0][2], goal=sat[0][0]))
    else:
        out['verdict'] = 'unsat' if all(x[1] == 'unsat' for x in res) else 'unknown'
    return out


def _l1_codec(q: str) -> bool:
    """
    pre: 1 <= len(q) <= 2
    pre: all(33 <= ord(c) <= 126 for c in q)
    post: _
    """
    return S.codec_clause(q) is None


def _l2_field(field: int, vi: int, bi: int, ri: int) -> bool:
    """
    pre: 0 <= field <= 6
    pre: 0 <= vi < 34
    pre: vi < 33 or field == 5
    pre: 0 <= bi <= 4
    pre: 0 <= ri <= 3
    post: _
    """
    return S.field_roundtrip_clause(FakeRead, QueryNameFlagger, field, pick(S.POOL, vi), pick(S.BIS, bi), pick(S.RQS, ri)) is None


def _l4_pipeline(strategy: int, ui: int, qi: int, li: int, ii: int, bi: int) -> bool:
    """
    pre: 0 <= strategy <= 1
    pre: 0 <= ui <= 2 and 0 <= qi <= 2 and 0 <= li <= 2 and 0 <= ii <= 2
    pre: 0 <= bi <= 4
    post: _
    """
    return S.pipeline_clause(FakeRead, QueryNameFlagger, pick([NLAIII_384w_c8_u3, CELSeq2_c8_u6], strategy), ui, qi, li, ii, bi) is None


def _l5_flagger_sequence(i0: int, i1: int, i2: int) -> bool:
    """
    pre: 0 <= i0 <= 2 and 0 <= i1 <= 2 and 0 <= i2 <= 2
    post: _
    """
    return S.flagger_sequence_clause(FakeRead, QueryNameFlagger, [i0, i1, i2]) is None


def _l3_guard(n: int) -> bool:
    """
    pre: 0 <= n <= 300
    post: _
    """
    return S.length_guard_clause(n) is None


_T = {'quick': 200, 'thorough': 900}
LEMMAS = [
    dict(name='L1_codec_unbounded', run='l1_codec_e2', engine='E2', timeout=_T, replay='replay.C04:replay'),
    dict(name='L1_codec_chars', fn='_l1_codec', engine='E1', timeout=_T, replay='replay.C04:replay',
         cases={'quick': [dict(id='len1', pre=['len(q) == 1'])], 'thorough': [dict(id='len1', pre=['len(q) == 1']), dict(id='len2', pre=['len(q) == 2'])]}),
    dict(name='L2_field_roundtrip', fn='_l2_field', engine='E1', timeout=_T, replay='replay.C04:replay',
         cases={'quick': [dict(id=S.FIELDS[f], pre=['field == %d' % f]) for f in range(7)]}),
    dict(name='L4_pipeline_pools', fn='_l4_pipeline', engine='E1', timeout=_T, replay='replay.C04:replay',
         cases={'quick': [dict(id='s%d_u%d' % (st, u), pre=['strategy == %d' % st, 'ui == %d' % u]) for st in (0, 1) for u in (0, 1, 2)]}),
    dict(name='L5_flagger_sequence', fn='_l5_flagger_sequence', engine='E1', timeout=_T, replay='replay.C04:replay'),
    dict(name='L3_length_guard', fn='_l3_guard', engine='E1', timeout=_T, replay='replay.C04:replay',
         cases={'quick': [dict(id='lo', pre=['n <= 150']), dict(id='hi', pre=['n > 150'])]}),
]

PROPERTY = dict(
    functions=['baseDemultiplexMethods.phredToFastqHeaderSafeQualities / fastqHeaderSafeQualitiesToPhred',
               'baseDemultiplexMethods.UmiBarcodeDemuxMethod.demultiplex + IlluminaBaseDemultiplexer.demultiplex (NLAIII384C8U3, CS2C8U6)',
               'baseDemultiplexMethods.TaggedRecord (fromRawFastq, _parse_illumina_header, asFastq, fromTaggedBamRecord, addTagByTag, tagPysamRead, asIlluminaHeader)',
               'universalBamTagger.QueryNameFlagger.digest'],
    bounds=dict(codec='E2: every integer code point >= 33 (unbounded); E1: every 1-char (thorough 2-char) string over 33..126',
                roundtrip='L2: one field (RX, BC, bc, LY, MX, aA/aa, rS) takes every value of a pool of 34 strings (all 1-2 character strings over {a,Z,0,-,_}, N, a 10-mer, a 40-mer; for the sequencing index also the dual index ATCACG+CGTGAT) selected by a symbolic index, x 5 cell indices x 4 encoded UMI-quality strings; '
                          'L4: real NLAIII384C8U3 / CS2C8U6 strategies end to end with UMI / quality / library / index values from concrete pools of 3 selected by symbolic indices, 5 cell indices; symbolic strings through the ;/: header split proved out of reach (one path > 14 s, see DESIGN 6)',
                guard='library length 0..300', sequence='every sequence of 3 reads drawn from {CELSeq2 read with UMI, ScarTrace read without UMI, bulk read} through ONE flagger instance'),
    outside=['pysam storage of tags / query names (replay only)', 'library names outside the header-safe alphabet',
             'headers of the short 7-field and already-demultiplexed styles (C01 covers parsing them)'],
    assumptions=['StubBarcodeParser accepts and returns the barcode unchanged (C03 proves the real parser)',
                 'fqSafe regex replaced by a per-character filter whose alphabet is read from the live regex on every run (code points < 0x3000; validated on random strings)',
                 '`except BaseException` in TaggedRecord._parse_illumina_header/fromRawFastq recompiled as `except Exception` for the harness run only',
                 'aligner keeps the FASTQ header (up to the first blank) as the read name'],
    trusted=['stubs/fakeread.py', 'stubs/stubparser.py', 'spec/c04.py'],
)
