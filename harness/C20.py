"""C20 - status marker reports success only for a complete, sorted, indexed output.
Real code: tag_multiome_single_thread, sorted_bam_file, sort_and_index, tag_multiome_multi_processing (serial driver), write_status."""
from spec import c20 as S
import singlecellmultiomics.universalBamTagger.bamtagmultiome as BT
import singlecellmultiomics.bamProcessing.bamFunctions as BF


def _install(w):
    fp = S.FakePysam(w)
    BT.pysam = fp
    BF.pysam = fp
    BF.os = S.FakeOS(w)
    BT.open = S.status_open_factory(w)

    def rehead(path, rgs, *a, **k):
        w.step('reheader')
        w.files[path]['rg'] = True
    BF.add_readgroups_to_header = rehead


def _single(kappa, kill, n):
    w = S.World(kappa, kill)
    _install(w)
    out = 'dir/out.bam'
    w.status[out.replace('.bam', '.status.txt')] = 'unfinished\n'
    escaped = False
    try:
        BT.tag_multiome_single_thread('in.bam', out, molecule_iterator=S.molecule_iterator_factory(w, n),
                                      molecule_iterator_args={'contig': None, 'start': None, 'end': None})
    except S.Crash:
        escaped = True
    except S.Kill:
        escaped = True
    if escaped and w.crashed_at is None:
        return 'clean_run_raised'
    return S.judge(w, out, n, escaped)


def _l1_single(kappa: int, kill: bool, n: int) -> bool:
    """
    pre: -1 <= kappa <= 24
    pre: 0 <= n <= 3
    post: _
    """
    return _single(None if kappa < 0 else kappa, kill, n) is None


def _multi(kappa, kill, njobs, empty_mask, etype=0):
    """real tag_multiome_multi_processing (serial driver) + real tagging.run_tagging_tasks; environment = step world"""
    import contextlib
    import singlecellmultiomics.universalBamTagger.tagging as TG
    w = S.World(kappa, kill, etype)
    _install(w)
    out = 'dir/out.bam'
    w.status[out.replace('.bam', '.status.txt')] = 'unfinished\n'

    class P:
        def exists(self, p):
            return p == 'tmp'

        def join(self, *a):
            return '/'.join(a)

    class OSs:
        path = P()

        def makedirs(self, *a, **k):
            w.step('mkdir')
    BT.os = OSs()
    BT.get_contigs_with_reads = lambda path, with_length=False: iter([('c%d' % i, 200000) if with_length else 'c%d' % i for i in range(njobs - 1)])
    jobs_run = []

    class AF:
        def __init__(self, path, *a, **k):
            w.step('worker_open_input')

        def __enter__(self):
            return self

        def __exit__(self, *a):
            return False

    @contextlib.contextmanager
    def sorted_bam_file(path, **kw):
        w.step('worker_open_output')
        w.files[path] = dict(records=[], sorted=False, closed=False, rg=True)
        yield w.files[path]['records']
        w.step('worker_sort_index')
        w.files[path]['sorted'] = True
        w.files[path]['closed'] = True
        w.files[path + '.bai'] = dict(records=[], sorted=True, closed=True, rg=True)

    def run_tagging_task(alignments, output, **kw):
        w.step('worker_task')
        j = len(jobs_run)
        jobs_run.append(j)
        if (empty_mask >> j) & 1:
            return {'total_molecules_written': 0}
        output.append('rec%d' % j)
        return {'total_molecules_written': 1}

    def remove(p):
        w.step('worker_remove_empty')
        w.files.pop(p, None)
    TG.AlignmentFile, TG.sorted_bam_file, TG.run_tagging_task, TG.remove = AF, sorted_bam_file, run_tagging_task, remove

    class TOS:
        path = P()
    TG.os = TOS()

    def merge_bams(bams, output_path, threads=None):
        w.step('merge')
        recs = []
        for b_ in bams:
            if not (b_ in w.files and (b_ + '.bai') in w.files):
                raise AssertionError('Only indexed files can be merged')
            recs += w.files[b_]['records']
        w.step('merge_index')
        w.files[output_path] = dict(records=sorted(recs), sorted=True, closed=True, rg=True)
        w.files[output_path + '.bai'] = dict(records=[], sorted=True, closed=True, rg=True)
    BT.merge_bams = merge_bams
    BT.sleep = lambda s_: None

    class Sh:
        def rmtree(self, *a, **k):
            w.step('cleanup')
    BT.shutil = Sh()
    escaped = False
    try:
        BT.tag_multiome_multi_processing('in.bam', out, molecule_iterator_args={}, fragment_size=500, bp_per_job=1000, bp_per_segment=500,
                                         temp_folder_root='tmp', use_pool=False, one_contig_per_process=True, additional_args={}, n_threads=1)
    except S.Kill:
        escaped = True
    except Exception:
        escaped = True
    status, files = w.final()
    st = status.get(out.replace('.bam', '.status.txt'))
    ok = (st == S.OK)
    exp = sorted('rec%d' % j for j in range(njobs) if not (empty_mask >> j) & 1)
    f = files.get(out)
    complete = f is not None and f['sorted'] and (out + '.bai') in files and f['records'] == exp
    if escaped and w.crashed_at is None:
        return 'multi.clean_run_raised'
    if ok and not complete:
        return 'multi.ok_status_incomplete_output@%s' % (w.crashed_at,)
    if escaped and ok:
        return 'multi.ok_status_after_failure@%s' % (w.crashed_at,)
    if not escaped and not ok:
        return 'multi.no_ok_status_after_clean_run@%s' % (w.crashed_at,)
    return None


def _rerun(kappa, kill, etype, bad_suffix):
    """a re-run onto an existing, successfully finished output that fails during set-up (unknown method): real run_multiome_tagging prologue"""
    w = S.World(kappa, kill, etype)
    _install(w)
    out = 'dir/out.bam' if not bad_suffix else 'dir/out.bamx'

    class P:
        def exists(self, p):
            return p in w.files

    class OSs:
        path = P()

        def remove(self, p):
            w.step('remove_old_output')
            w.files.pop(p, None)
    BT.os = OSs()
    BT.verify_and_fix_bam = lambda p: w.step('verify_input')
    BT.get_reference_from_pysam_alignmentFile = lambda a: None
    w.files['dir/out.bam'] = dict(records=['old0', 'old1'], sorted=True, closed=True, rg=True)
    w.files['dir/out.bam.bai'] = dict(records=[], sorted=True, closed=True, rg=True)
    w.status['dir/out.status.txt'] = S.OK
    args = BT.argparser.parse_args(['in.bam', '-o', out, '-method', 'bogus_method'])
    escaped = False
    try:
        BT.run_multiome_tagging(args)
    except S.Kill:
        escaped = True
    except Exception:
        escaped = True
    if not escaped:
        return 'rerun.no_error_for_unknown_method'
    status, files = w.final()
    ok = status.get('dir/out.status.txt') == S.OK
    f = files.get('dir/out.bam')
    complete = f is not None and f['sorted'] and ('dir/out.bam.bai' in files) and f['records'] == ['old0', 'old1']
    if ok and not complete:
        return 'rerun.stale_ok_status_output_gone@%s' % (w.crashed_at,)
    return None


def _l3_rerun(kappa: int, kill: bool, etype: int, bad_suffix: bool) -> bool:
    """
    pre: -1 <= kappa <= 8
    pre: 0 <= etype <= 5
    post: _
    """
    return _rerun(None if kappa < 0 else kappa, kill, etype, bad_suffix) is None


def _l2_multi(kappa: int, kill: bool, njobs: int, empty_mask: int, etype: int) -> bool:
    """
    pre: -1 <= kappa <= 24
    pre: 1 <= njobs <= 3
    pre: 0 <= empty_mask <= 7
    pre: 0 <= etype <= 5
    post: _
    """
    return _multi(None if kappa < 0 else kappa, kill, njobs, empty_mask, etype) is None


_T = {'quick': 120, 'thorough': 600}
LEMMAS = [
    dict(name='L1_single_process', fn='_l1_single', engine='E1', timeout=_T, replay='replay.C20:replay',
         cases={'quick': [dict(id='n%d_%s' % (n, 'kill' if k else 'exc'), pre=['n == %d' % n, 'kill == %s' % k]) for n in (0, 1, 2) for k in (False, True)],
                'thorough': [dict(id='n%d_%s' % (n, 'kill' if k else 'exc'), pre=['n == %d' % n, 'kill == %s' % k]) for n in (0, 1, 2, 3) for k in (False, True)]}),
    dict(name='L2_multi_process', fn='_l2_multi', engine='E1', timeout=_T, replay='replay.C20:replay',
         cases={'quick': [dict(id='j%d_kill' % j, pre=['njobs == %d' % j, 'kill == True', 'etype == 0']) for j in (1, 2, 3)] +
                         [dict(id='j%d_exc%d' % (j, e), pre=['njobs == %d' % j, 'kill == False', 'etype == %d' % e]) for j in (1, 2) for e in range(6)] +
                         [dict(id='j3_exc%d' % e, pre=['njobs == 3', 'kill == False', 'etype == %d' % e]) for e in (0, 1)]}),
    dict(name='L3_failed_rerun', fn='_l3_rerun', engine='E1', timeout=_T, replay='replay.C20:replay'),
]

PROPERTY = dict(
    functions=['bamtagmultiome.tag_multiome_single_thread', 'bamtagmultiome.tag_multiome_multi_processing (use_pool=False serial driver)', 'tagging.run_tagging_tasks (real worker wrapper)',
               'bamtagmultiome.write_status', 'bamtagmultiome.run_multiome_tagging (set-up part, up to the method dispatch)', 'bamFunctions.sorted_bam_file', 'bamFunctions.sort_and_index'],
    bounds=dict(crash_point='symbolic index over every step boundary (<=25 single, <=15 multi), plus "no crash"', molecules='0..2 (thorough 3)',
                jobs='1..3 with any subset producing no output', flavours='exception of 6 types: custom, ValueError, KeyError, OSError, RuntimeError, IndexError (handlers/context managers run) and kill (world snapshotted at the step)'),
    outside=['real process death between write() and data reaching disk', 'htslib sort/index/merge internals (steps that either complete or fail)',
             'cluster submission mode', 'multiprocessing.Pool worker death (the serial driver is executed)', '-head N and -max_time_per_segment (runs that are complete by design although records are left out)', 'output paths containing ".bam" more than once (write_status path replacement)'],
    assumptions=['every environment operation is atomic: it either happens completely or fails before any effect',
                 'status file starts as "unfinished" (written by run_multiome_tagging before tagging starts)',
                 'the run counts as failed iff the pipeline call does not return normally (faults the pipeline absorbs, such as a sort attempt retried at another temp location or a failing temp-folder cleanup, are not failures)'],
    trusted=['spec/c20.py world model (FakePysam, FakeOS, step counter)'],
)
