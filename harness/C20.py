"""C20 - status marker reports success only for a complete, sorted, indexed output.
Real code: tag_multiome_single_thread, sorted_bam_file, sort_and_index, tag_multiome_multi_processing (serial driver), write_status."""
from spec import c20 as S
import singlecellmultiomics.universalBamTagger.bamtagmultiome as BT
import singlecellmultiomics.bamProcessing.bamFunctions as BF


def _install(w):
    fp = S.FakePysam(w)
    BT.pysam = fp
    BF.pysam = fp
    BF.os = S.FakeOS(w)
    BT.open = S.status_open_factory(w)

    def rehead(path, rgs, *a, **k):
        w.step('reheader')
        w.files[path]['rg'] = True
    BF.add_readgroups_to_header = rehead


def _single(kappa, kill, n):
    w = S.World(kappa, kill)
    _install(w)
    out = 'dir/out.bam'
    w.status[out.replace('.bam', '.status.txt')] = 'unfinished\n'
    escaped = False
    try:
        BT.tag_multiome_single_thread('in.bam', out, molecule_iterator=S.molecule_iterator_factory(w, n),
                                      molecule_iterator_args={'contig': None, 'start': None, 'end': None})
    except S.Crash:
        escaped = True
    except S.Kill:
        escaped = True
    return S.judge(w, out, n, escaped)


def _l1_single(kappa: int, kill: bool, n: int) -> bool:
    """
    pre: -1 <= kappa <= 24
    pre: 0 <= n <= 3
    post: _
    """
    return _single(None if kappa < 0 else kappa, kill, n) is None


def _multi(kappa, kill, njobs, empty_mask):
    w = S.World(kappa, kill)
    _install(w)
    out = 'dir/out.bam'
    w.status[out.replace('.bam', '.status.txt')] = 'unfinished\n'

    class P:
        def exists(self, p):
            return True

        def join(self, *a):
            return '/'.join(a)

    class OSs:
        path = P()

        def makedirs(self, *a, **k):
            w.step('mkdir')
    BT.os = OSs()
    BT.get_contigs_with_reads = lambda path, with_length=False: iter([('c%d' % i, 200000) if with_length else 'c%d' % i for i in range(njobs - 1)])
    produced = []

    def run_tagging_tasks(task):
        w.step('worker')
        j = len(produced)
        if (empty_mask >> j) & 1:
            produced.append(None)
            return None, {'total_molecules': 0, 'timeout_tasks': []}
        p = 'tmp/job%d.bam' % j
        w.files[p] = dict(records=['rec%d' % j], sorted=True, closed=True, rg=True)
        produced.append(p)
        return p, {'total_molecules': 1, 'timeout_tasks': []}
    BT.run_tagging_tasks = run_tagging_tasks

    def merge_bams(bams, output_path, threads=None):
        w.step('merge')
        recs = []
        for b in bams:
            recs += w.files[b]['records']
        w.step('merge_index')
        w.files[output_path] = dict(records=sorted(recs), sorted=True, closed=True, rg=True)
        w.files[output_path + '.bai'] = dict(records=[], sorted=True, closed=True, rg=True)
    BT.merge_bams = merge_bams
    BT.sleep = lambda s: None

    class Sh:
        def rmtree(self, *a, **k):
            w.step('cleanup')
    BT.shutil = Sh()
    escaped = False
    try:
        BT.tag_multiome_multi_processing('in.bam', out, molecule_iterator_args={}, fragment_size=500, bp_per_job=1000, bp_per_segment=500,
                                         temp_folder_root='tmp', use_pool=False, one_contig_per_process=True, additional_args={}, n_threads=1)
    except S.Crash:
        escaped = True
    except S.Kill:
        escaped = True
    status, files = w.final()
    st = status.get(out.replace('.bam', '.status.txt'))
    ok = (st == S.OK)
    exp = sorted('rec%d' % j for j in range(njobs) if not (empty_mask >> j) & 1)
    f = files.get(out)
    complete = f is not None and f['sorted'] and (out + '.bai') in files and f['records'] == exp
    if ok and not complete:
        return 'multi.ok_status_incomplete_output@%s' % (w.crashed_at,)
    if escaped and ok:
        return 'multi.ok_status_after_failure@%s' % (w.crashed_at,)
    if not escaped and not ok:
        return 'multi.no_ok_status_after_clean_run@%s' % (w.crashed_at,)
    return None


def _l2_multi(kappa: int, kill: bool, njobs: int, empty_mask: int) -> bool:
    """
    pre: -1 <= kappa <= 14
    pre: 1 <= njobs <= 3
    pre: 0 <= empty_mask <= 7
    post: _
    """
    return _multi(None if kappa < 0 else kappa, kill, njobs, empty_mask) is None


_T = {'quick': 120, 'thorough': 600}
LEMMAS = [
    dict(name='L1_single_process', fn='_l1_single', engine='E1', timeout=_T, replay='replay.C20:replay',
         cases={'quick': [dict(id='n%d_%s' % (n, 'kill' if k else 'exc'), pre=['n == %d' % n, 'kill == %s' % k]) for n in (0, 1, 2) for k in (False, True)],
                'thorough': [dict(id='n%d_%s' % (n, 'kill' if k else 'exc'), pre=['n == %d' % n, 'kill == %s' % k]) for n in (0, 1, 2, 3) for k in (False, True)]}),
    dict(name='L2_multi_process', fn='_l2_multi', engine='E1', timeout=_T, replay='replay.C20:replay',
         cases={'quick': [dict(id='j%d_%s' % (j, 'kill' if k else 'exc'), pre=['njobs == %d' % j, 'kill == %s' % k]) for j in (1, 2, 3) for k in (False, True)]}),
]

PROPERTY = dict(
    functions=['bamtagmultiome.tag_multiome_single_thread', 'bamtagmultiome.tag_multiome_multi_processing (use_pool=False serial driver)',
               'bamtagmultiome.write_status', 'bamFunctions.sorted_bam_file', 'bamFunctions.sort_and_index'],
    bounds=dict(crash_point='symbolic index over every step boundary (<=25 single, <=15 multi), plus "no crash"', molecules='0..2 (thorough 3)',
                jobs='1..3 with any subset producing no output', flavours='exception (handlers/context managers run) and kill (world snapshotted at the step)'),
    outside=['real process death between write() and data reaching disk', 'htslib sort/index/merge internals (steps that either complete or fail)',
             'cluster submission mode', 'multiprocessing.Pool worker death (the serial driver is executed)'],
    assumptions=['every environment operation is atomic: it either happens completely or fails before any effect',
                 'status file starts as "unfinished" (written by run_multiome_tagging before tagging starts)',
                 'the run counts as failed iff the pipeline call does not return normally (faults the pipeline absorbs, such as a sort attempt retried at another temp location or a failing temp-folder cleanup, are not failures)'],
    trusted=['spec/c20.py world model (FakePysam, FakeOS, step counter)'],
)
