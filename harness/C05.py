"""C05 - tagging conserves alignment records. Python-level logic that decides whether a record can vanish / duplicate:
job construction (E3 cut of tag_multiome_multi_processing), region tiling, MoleculeIterator conservation, writer step."""
from vlib import astcut, floatcut
from spec import tagging as S
from spec import c05 as S5
from vlib.sym import pick
import singlecellmultiomics.universalBamTagger.bamtagmultiome as BT
import singlecellmultiomics.bamProcessing.bamBinCounts as B
import singlecellmultiomics.universalBamTagger.tagging as TG

_CUTS = floatcut.install(B, ['blacklisted_binning'])
BT.blacklisted_binning_contigs.__globals__['blacklisted_binning'] = B.blacklisted_binning

_contig_block = astcut.cut_if(BT, 'tag_multiome_multi_processing', 'one_contig_per_process', 'body',
                              params=('get_contigs_with_reads', 'input_bam_path', 'contig_whitelist', 'contig_restricted'), result='job_gen', name='_contig_jobs')
_region_block_raw = astcut.cut_if(BT, 'tag_multiome_multi_processing', 'one_contig_per_process', 'orelse',
                                  params=('input_bam_path', 'bp_per_segment', 'fragment_size', 'bp_per_job', 'contig_whitelist', 'blacklist_path'),
                                  result='job_gen', name='_region_jobs')


def _region_block(contig_sizes, bin_size, F, bp_per_job, whitelist):
    return _region_block_raw(contig_sizes, bin_size, F, bp_per_job, whitelist, None)


NAMES = ['c0', 'c1', 'c2', 'c3', 'c4']


def _l1_contig_jobs(n: int, l0: int, l1: int, l2: int, l3: int, l4: int, star: int, sel: int) -> bool:
    """
    pre: 0 <= n <= 5
    pre: -1 <= sel <= 4
    pre: l0 >= 1 and l1 >= 1 and l2 >= 1 and l3 >= 1 and l4 >= 1
    pre: -1 <= star <= n
    post: _
    """
    contigs = [(NAMES[i], l) for i, l in enumerate([l0, l1, l2, l3, l4][:n])]
    if star >= 0:
        contigs.insert(star, ('*', 0))
    # sel: -1 = no -contig option, otherwise the selected contig (which may have no reads: index >= n)
    restrict = None if sel < 0 else pick(NAMES, sel)
    return S.check_contig_jobs(_contig_block, contigs, restrict) is None


BIG_NAMES = ['k%02d' % i for i in range(14)]


def _l1b_many_contigs(n: int, a: int, b: int, star: bool) -> bool:
    """
    pre: 0 <= n <= 13
    pre: 0 <= a <= b <= n
    post: _
    """
    # n contigs: [0,a) small, [a,b) large, [b,n) small  (+ optional idxstats '*' entry at the end, where samtools puts it)
    contigs = []
    for i in range(n):
        contigs.append((BIG_NAMES[i], 5_000_000 if a <= i < b else 900))
    if star:
        contigs.append(('*', 0))
    return S.check_contig_jobs(_contig_block, contigs) is None


def _l2_region_jobs(n: int, L0: int, L1: int, b: int, bpj: int, F: int, wl: int) -> bool:
    """
    pre: 1 <= n <= 2
    pre: 1 <= L0 <= 5 and 1 <= L1 <= 4
    pre: 1 <= b <= 5
    pre: 1 <= bpj <= 7
    pre: 0 <= F
    pre: 0 <= wl <= 2
    post: _
    """
    sizes = [('c0', L0), ('c1', L1)][:n]
    whitelist = [None, ['c0'], ['c0', 'c1']][wl]
    return S.check_region_jobs(_region_block, sizes, b, bpj, F, whitelist) is None


def _l3_iterator(n: int, v0: bool, v1: bool, v2: bool, v3: bool, k0: int, k1: int, k2: int, k3: int, cap: int,
                 pooling: int, rejects: bool, cee: int) -> bool:
    """
    pre: 1 <= n <= 4
    pre: 0 <= k0 <= 1 and 0 <= k1 <= 1 and 0 <= k2 <= 1 and 0 <= k3 <= 1
    pre: 0 <= cap <= 2
    pre: 0 <= pooling <= 1
    pre: -1 <= cee <= 3
    post: _
    """
    return S5.check_iterator_conservation(n, [v0, v1, v2, v3], [k0, k1, k2, k3], cap, pooling, rejects,
                                          None if cee < 0 else cee) is None


def _l4_writer(n: int, s0: int, s1: int, s2: int, h0: bool, h1: bool, h2: bool) -> bool:
    """
    pre: 0 <= n <= 3
    post: _
    """
    specs = [((0 if h else None), s) for h, s in zip([h0, h1, h2], [s0, s1, s2])][:n]
    return S.check_tagging_task(TG.run_tagging_task, specs, None) is None


def _l6_read_groups(n: int, a0: int, b0: int, a1: int, b1: int, two0: bool, two1: bool) -> bool:
    """
    pre: 1 <= n <= 2
    pre: 0 <= a0 <= 2 and 0 <= b0 <= 2 and 0 <= a1 <= 2 and 0 <= b1 <= 2
    post: _
    """
    # single-process path: every record that is written carries a read group, and every such read group must be handed to the header rewrite
    from spec import c20 as W
    import singlecellmultiomics.bamProcessing.bamFunctions as BF
    from vlib.sym import pick
    RGS = ['FC1.1.cellA', 'FC1.2.cellA', 'FC2.1.cellB']
    w = W.World(None, False)
    fp = W.FakePysam(w)
    BT.pysam, BF.pysam, BF.os, BT.open = fp, fp, W.FakeOS(w), W.status_open_factory(w)
    declared = {}

    def rehead(path, rgs, *a, **k):
        declared.update(rgs)
        w.files[path]['rg'] = True
    BF.add_readgroups_to_header = rehead
    written = []

    class Frag:
        def __init__(self, rg):
            self.rg = rg

        def get_read_group(self, with_attr=False):
            return (self.rg, {'ID': self.rg}) if with_attr else self.rg

    class Mol:
        def __init__(self, i, rgs):
            self.i, self.frags = i, [Frag(r) for r in rgs]

        def __iter__(self):
            return iter(self.frags)

        def __getitem__(self, k):
            return self.frags[k]

        def __len__(self):
            return len(self.frags)

        def set_meta(self, k, v):
            pass

        def get_a_reference_id(self):
            return 'r%d' % self.i

        def write_tags(self):
            pass

        def write_pysam(self, out, **kw):
            for f in self.frags:
                written.append(f.rg)
                out.write(f.rg)
    specs = [([pick(RGS, a0)] + ([pick(RGS, b0)] if two0 else [])), ([pick(RGS, a1)] + ([pick(RGS, b1)] if two1 else []))][:n]

    def molecule_iterator(alignments, **kw):
        if kw.get('contig') == '*':
            return
        for i, rgs in enumerate(specs):
            yield Mol(i, rgs)
    BT.tag_multiome_single_thread('in.bam', 'dir/out.bam', molecule_iterator=molecule_iterator, molecule_iterator_args={'contig': None, 'start': None, 'end': None})
    if sorted(written) != sorted(r for sp in specs for r in sp):
        return False
    return all(r in declared for r in written)


def _l5_job(n: int, c0: int, c1: int, c2: int, v0: bool, v1: bool, v2: bool, v3: bool) -> bool:
    """
    pre: 1 <= n <= 3
    pre: 0 <= c0 <= 2 and 0 <= c1 <= 2 and 0 <= c2 <= 2
    pre: c0 + c1 + c2 <= 4
    post: _
    """
    return S.check_tagging_job(TG, [c0, c1, c2][:n], [v0, v1, v2, v3]) is None


_T = {'quick': 150, 'thorough': 900}
def _l7_qflag(n: int, m0: int, m1: int, m2: int, q0: bool, q1: bool, q2: bool, u0: bool, u1: bool, u2: bool, r0: bool, r1: bool, r2: bool) -> bool:
    """
    pre: 1 <= n <= 3
    pre: 0 <= m0 <= 2 and 0 <= m1 <= 2 and 0 <= m2 <= 2
    post: _
    """
    # -method qflag: the real ReadIterator hands every record on alone, FragmentStartPosition / Molecule / MoleculeIterator
    # (every_fragment_as_molecule, rejects kept) must emit every record exactly once with its mate number unchanged.
    # m: 0 = unpaired, 1 = read 1 of a pair, 2 = read 2 of a pair; q: qc-fail; u: unmapped; r: reverse strand
    from singlecellmultiomics.molecule.iterator import ReadIterator
    from singlecellmultiomics.molecule import MoleculeIterator, Molecule
    from singlecellmultiomics.fragment import FragmentStartPosition
    from stubs.fakeread import FakeRead
    recs = []
    for i, (m, q, u, r) in enumerate(list(zip([m0, m1, m2], [q0, q1, q2], [u0, u1, u2], [r0, r1, r2]))[:n]):
        mm = pick([0, 1, 2], m)
        recs.append(FakeRead(query_name='q%d' % i, reference_name='chr1', reference_start=100 + 10 * i, cigartuples=(None if u else [(0, 8)]), seq='ACGTACGT', qual='IIIIIIII',      # an unmapped (placed) record has no CIGAR
                             is_paired=(mm > 0), is_read1=(mm == 1), is_read2=(mm == 2), is_qcfail=q, is_unmapped=u, is_reverse=r,
                             tags={'SM': 'lib_1', 'RX': 'ACG'}))
    before = [(x.is_read1, x.is_read2) for x in recs]
    ri = ReadIterator.__new__(ReadIterator)          # the real __next__ over a plain record stream (no pysam handle)
    ri.iterator = iter(recs)
    ri.performProperPairCheck = False
    ri.cachedR1s, ri.cachedR2s = {}, {}
    it = MoleculeIterator(ri, molecule_class=Molecule, fragment_class=FragmentStartPosition, every_fragment_as_molecule=True,
                          yield_invalid=True, yield_overflow=True, perform_qflag=False)
    seen = []
    for mol in it:
        for frag in mol:
            for read in frag:
                if read is not None:
                    seen.append(read.query_name)
    if sorted(seen) != sorted(x.query_name for x in recs):
        return False
    # mate numbers of paired records are unchanged (an unpaired record has none)
    return all((x.is_read1, x.is_read2) == b for x, b in zip(recs, before) if x.is_paired)


def _l0_contigs_with_reads(n: int, m0: int, u0: int, m1: int, u1: int, m2: int, u2: int, su: int, with_length: bool) -> bool:
    """
    pre: 0 <= n <= 3
    pre: 0 <= m0 <= 2 and 0 <= u0 <= 2 and 0 <= m1 <= 2 and 0 <= u1 <= 2 and 0 <= m2 <= 2 and 0 <= u2 <= 2
    pre: 0 <= su <= 2
    post: _
    """
    return S.check_contigs_with_reads(n, [m0, m1, m2], [u0, u1, u2], su, with_length) is None


LEMMAS = [
    dict(name='L0_contigs_with_reads', fn='_l0_contigs_with_reads', engine='E1', timeout=_T, replay='replay.C05:replay',
         cases={'quick': [dict(id='n%d' % k, pre=['n == %d' % k] + ['m%d == 0' % i for i in range(k, 3)] + ['u%d == 0' % i for i in range(k, 3)]) for k in (0, 1, 2)] +
                         [dict(id='n3_m%d_%s' % (m, 'len' if w else 'name'), pre=['n == 3', 'm0 == %d' % m, 'with_length == %s' % bool(w)]) for m in (0, 1, 2) for w in (0, 1)]}),
    dict(name='L1_contig_jobs', fn='_l1_contig_jobs', engine='E1', timeout=_T, replay='replay.C05:replay',
         cases={'quick': [dict(id='n%d' % n, pre=['n == %d' % n]) for n in (0, 1, 2, 3, 4)],
                'thorough': [dict(id='n%d' % n, pre=['n == %d' % n]) for n in (0, 1, 2, 3, 4, 5)]}),
    dict(name='L1b_many_contigs', fn='_l1b_many_contigs', engine='E1', timeout=_T, replay='replay.C05:replay'),
    dict(name='L2_region_jobs', fn='_l2_region_jobs', engine='E1', timeout=_T, replay='replay.C05:replay',
         cases={'quick': [dict(id='n%d_L%d' % (n, L), pre=['n == %d' % n, 'L0 == %d' % L]) for n in (1, 2) for L in (1, 2, 3, 4)],
                'thorough': [dict(id='n%d_L%d' % (n, L), pre=['n == %d' % n, 'L0 == %d' % L]) for n in (1, 2) for L in (1, 2, 3, 4, 5)]}),
    dict(name='L3_iterator_conservation', fn='_l3_iterator', engine='E1', timeout=_T, replay='replay.C05:replay',
         cases={'quick': [dict(id='n%d_p%d' % (n, p), pre=['n == %d' % n, 'pooling == %d' % p]) for n in (1, 2, 3) for p in (0, 1)],
                'thorough': [dict(id='n%d_p%d' % (n, p), pre=['n == %d' % n, 'pooling == %d' % p]) for n in (1, 2, 3, 4) for p in (0, 1)]}),
    dict(name='L4_writer_step', fn='_l4_writer', engine='E1', timeout=_T, replay='replay.C05:replay'),
    dict(name='L7_qflag_every_record', fn='_l7_qflag', engine='E1', timeout=_T, replay='replay.C05:replay',
         cases={'quick': [dict(id='n%d' % k, pre=['n == %d' % k] + ['m%d == 0' % i for i in range(k, 3)]) for k in (1, 2, 3)]}),
    dict(name='L6_read_groups_declared', fn='_l6_read_groups', engine='E1', timeout=_T, replay='replay.C05:replay'),
    dict(name='L5_job_bookkeeping', fn='_l5_job', engine='E1', timeout=_T, replay='replay.C05:replay'),
]

PROPERTY = dict(
    functions=['bamFunctions.get_contigs_with_reads', 'bamtagmultiome.tag_multiome_multi_processing: `if one_contig_per_process:` block and its else branch (AST cut, E3)',
               'bamBinCounts.blacklisted_binning_contigs / blacklisted_binning', 'utils.binning.bp_chunked',
               'molecule.iterator.MoleculeIterator.__iter__', 'bamtagmultiome.tag_multiome_single_thread (read-group collection)', 'tagging.run_tagging_task', 'tagging.run_tagging_tasks (job bookkeeping: a job that wrote records keeps its output)',
               'molecule.iterator.ReadIterator.__next__ + Fragment.__init__ / FragmentStartPosition + MoleculeIterator(every_fragment_as_molecule) (-method qflag)'],
    bounds={'quick': dict(qflag='1..3 records, each unpaired / read 1 / read 2, qc-fail, unmapped (placed, no CIGAR), strand symbolic', contigs='<=4 contigs with arbitrary positive lengths, optional (*,0) idxstats entry at any position; and 0..13 contigs in every small* large* small* pattern',
                          region_mode='<=2 contigs of length <=4/4, bin<=5, bp_per_job<=7, fragment size unbounded',
                          iterator='<=3 fragments, symbolic validity, 2 keys, cap 0..2 (0 = none), both pooling methods, check_eject_every None/0..3',
                          writer='<=3 molecules, arbitrary sites'),
            'thorough': dict(contigs='<=5', iterator='<=4 fragments')},
    outside=['htslib preserving name/sequence/qualities/position/CIGAR; coordinate sort; index; samtools merge; header re-write',
             'pysamiterators.MatePairIterator dropping secondary/supplementary records', 'true parallel scheduling (results are combined by a multiset union)',
             'skip_contigs / contig selection options'],
    assumptions=['samtools idxstats prints one line per contig (name, length, mapped, unmapped-but-placed) and a final * line (L0 runs the real get_contigs_with_reads over such text; L1 takes its output as input)',
                 'stub fragment/molecule classes passed through the public MoleculeIterator / run_tagging_task APIs',
                 'composition L1/L2 (every region processed once) + L3 (no fragment lost inside a region) + L4 (no molecule lost on write) + C08 is a paper argument',
                 'float cut in blacklisted_binning: %r' % (_CUTS,)],
    trusted=['vlib/astcut.py', 'spec/tagging.py', 'spec/c05.py'],
)
