"""C15 - consensus pseudo-reads are well-formed and span exactly the molecule coverage.
Real code: Molecule.get_aligned_blocks / get_CIGAR / get_base_confidence_dict / deduplicate_majority / generate_partial_reads / get_dedup_reads /
get_consensus_read / write_tags_to_psuedoreads, utils.iteration.find_ranges, sequtils.create_MD_tag / phredscores_to_base_call / base_probabilities_to_likelihood."""
from stubs.fakeread import FakeRead
from stubs.fakefasta import FakeFasta
from spec import c15 as S
from vlib.sym import pick
import singlecellmultiomics.molecule.molecule as MM
from singlecellmultiomics.molecule import Molecule
from singlecellmultiomics.fragment import Fragment
from singlecellmultiomics.utils.sequtils import create_MD_tag, phredscores_to_base_call


class _PysamShim:
    """molecule.py builds its pseudo-reads with pysam.AlignedSegment(header=...): give it FakeRead objects"""
    def __getattr__(self, k):
        import pysam
        return getattr(pysam, k)

    @staticmethod
    def AlignedSegment(header=None):
        r = FakeRead(query_name=None, reference_name=None, reference_start=None, cigartuples=None, seq=None, qual=None, is_read1=False)
        return r


MM.pysam = _PysamShim()


class _Target:
    header = None


def _reads(s1, l1, gap, l2, third, g2, mm, spliced=False, indel=0):
    """read a covers [s1, s1+l1); read b starts gap after a's end (gap < 0: overlap); optional read c after another gap.
    indel (read a, needs l1 >= 2): 1 = one inserted base after its first base (1M1I..M), 2 = one deleted reference base after
    its first base (1M1D..M: read a then covers s1 and s1+2 .. s1+l1).
    The ground truth (reference position -> observed base, per read) is recorded in _reads.truth, independently of any
    read accessor."""
    out = []
    truth = []
    specs = [(s1, l1)]
    s2 = s1 + l1 + gap
    specs.append((s2, l2))
    if third:
        specs.append((s2 + l2 + g2, 1))
    for i, (s, l) in enumerate(specs):
        positions = list(range(s, s + l))
        cig = [(0, l)]
        if spliced and i == 1 and l >= 2:
            # read b is spliced: 1M 2N (l-1)M ; it covers s and s+3.. only, the skipped bases are NOT covered
            cig = [(0, 1), (3, 2), (0, l - 1)]
            positions = [s] + list(range(s + 3, s + 3 + l - 1))
        if indel == 2 and i == 0 and l >= 2:
            cig = [(0, 1), (2, 1), (0, l - 1)]
            positions = [s] + list(range(s + 2, s + 2 + l - 1))
        bases = [S.REFU[p] for p in positions]      # reads carry upper-case bases whatever the masking of the reference
        if mm and i == 0:
            bases[0] = 'T' if bases[0] != 'T' else 'A'
        t = dict(zip(positions, bases))
        seq = ''.join(bases)
        if indel == 1 and i == 0 and l >= 2:
            cig = [(0, 1), (1, 1), (0, l - 1)]
            ins = 'G' if S.REFU[s + 1] != 'G' else 'C'      # the inserted base differs from the next reference base
            seq = seq[0] + ins + seq[1:]
        out.append(FakeRead(query_name='r%d' % i, reference_name='chr1', reference_start=s, cigartuples=cig, seq=seq, qual='I' * len(seq),
                            is_read1=True, is_read2=False, tags={'SM': 'lib_1', 'RX': 'ACG', 'BC': 'ACGT'}))
        truth.append(t)
    _reads.truth = truth
    return out


def _molecule(reads):
    m = Molecule(reference=FakeFasta({'chr1': S.REF}))
    for r in reads:
        m._add_fragment(Fragment([r, None], umi_hamming_distance=0))
    m.sample = 'lib_1'
    return m


def _l1_blocks(s1: int, l1: int, gap: int, l2: int, third: bool, g2: int, indel: int) -> bool:
    """
    pre: 0 <= indel <= 2
    pre: indel == 0 or l1 >= 2
    pre: 0 <= s1 <= 3
    pre: 1 <= l1 <= 3 and 1 <= l2 <= 3
    pre: -2 <= gap <= 4
    pre: 0 <= g2 <= 3
    pre: s1 + l1 + gap >= 0
    post: _
    """
    R = list(range(-2, 6))
    s1, l1, gap, l2, g2 = pick(R, s1 + 2), pick(R, l1 + 2), pick(R, gap + 2), pick(R, l2 + 2), pick(R, g2 + 2)
    reads = _reads(s1, l1, gap, l2, third, g2, False, indel=pick([0, 1, 2], indel))
    m = _molecule(reads)
    cov = sorted(set(p for t in _reads.truth for p in t))
    want = S.runs(cov)
    if list(m.get_aligned_blocks()) != want:
        return False
    cig, a_start, a_end = m.get_CIGAR()
    if a_start != cov[0] or a_end != cov[-1]:
        return False
    if sum(n for op, n in cig if op == 'M') != len(cov):
        return False
    gaps = [want[i + 1][0] - want[i][1] - 1 for i in range(len(want) - 1)]
    return [n for op, n in cig if op == 'N'] == gaps and [op for op, n in cig] == (['M', 'N'] * len(want))[:2 * len(want) - 1]


def _l2_pseudo_reads(s1: int, l1: int, gap: int, l2: int, third: bool, g2: int, span: int, mm: bool, spliced: bool, indel: int) -> bool:
    """
    pre: 0 <= indel <= 2
    pre: indel == 0 or l1 >= 2
    pre: 0 <= s1 <= 3
    pre: 1 <= l1 <= 3 and 1 <= l2 <= 3
    pre: -2 <= gap <= 4
    pre: 0 <= g2 <= 3
    pre: -1 <= span <= 4
    pre: s1 + l1 + gap >= 0
    post: _
    """
    R = list(range(-2, 6))
    s1, l1, gap, l2, g2 = pick(R, s1 + 2), pick(R, l1 + 2), pick(R, gap + 2), pick(R, l2 + 2), pick(R, g2 + 2)   # concrete geometry per path
    reads = _reads(s1, l1, gap, l2, third, g2, mm, spliced, indel=pick([0, 1, 2], indel))
    m = _molecule(reads)
    max_N_span = None if span < 0 else pick(R, span + 2)
    out = m.deduplicate_majority(_Target(), 'cons', max_N_span=max_N_span)
    truth = _reads.truth
    cov = sorted(set(p for t in truth for p in t))
    if cov != S.covered(reads):
        return False                      # harness self-check: the reads built expose the intended coverage
    cov_runs = S.runs(cov)
    # expected calls: every covered position has one observed base (all reads agree except the optional mismatch of read 0)
    calls = {}
    for t in truth:
        for p, b in t.items():
            calls.setdefault(p, set()).add(b)
    calls = {p: (list(b)[0] if len(b) == 1 else None) for p, b in calls.items()}
    seen = []
    for rec in out:
        res = S.record_clause(rec, S.REF, calls, max_N_span, cov_runs)
        if not isinstance(res, tuple):
            return False
        seen.extend(res[1])
        if rec.get_tag('SM') != 'lib_1' or rec.get_tag('RX') != 'ACG' or rec.get_tag('TF') != len(reads):
            return False
        if rec.reference_name != 'chr1':
            return False
    if sorted(seen) != cov_runs:
        return False
    # records are split exactly at the gaps larger than max_N_span
    big = 0 if max_N_span is None else len([1 for i in range(len(cov_runs) - 1) if cov_runs[i + 1][0] - cov_runs[i][1] - 1 > max_N_span])
    return len(out) == big + 1


def _l3_call(na: int, nc: int, qa: int, qc: int) -> bool:
    """
    pre: 0 <= na <= 3 and 0 <= nc <= 3
    pre: 0 <= qa <= 4 and 0 <= qc <= 4
    pre: na + nc >= 1
    post: _
    """
    P = [0.9, 0.99, 0.999, 0.99999, 0.999999]     # up to Q50 / Q60: a decidable call must not be reported as a tie
    probs = {}
    if na:
        probs['A'] = [pick(P, qa)] * na
    if nc:
        probs['C'] = [pick(P, qc)] * nc
    base, p = phredscores_to_base_call(probs)
    if nc == 0:
        return base == 'A'
    if na == 0:
        return base == 'C'
    if na == nc and qa == qc:
        return base == 'N'
    # more observations of equal quality, or equally many of better quality, win
    if qa == qc:
        return base == ('A' if na > nc else 'C')
    if na == nc:
        return base == ('A' if qa > qc else 'C')
    return base in 'ACN'


def _l3b_call_order(pa: int, pc: int, k: int) -> bool:
    """
    pre: 0 <= pa <= 5 and 0 <= pc <= 5
    pre: 2 <= k <= 3
    post: _
    """
    # two candidate bases observed with the SAME multiset of confidences (phred 11, 17, 23), listed in any order: the evidence is
    # exactly balanced, the call must be N whatever order the reads were added in
    Q = [1 - 10 ** (-11 / 10), 1 - 10 ** (-17 / 10), 1 - 10 ** (-23 / 10)][:k] if k == 3 else [1 - 10 ** (-11 / 10), 1 - 10 ** (-23 / 10)]
    PERM = [(0, 1, 2), (0, 2, 1), (1, 0, 2), (1, 2, 0), (2, 0, 1), (2, 1, 0)]
    oa, oc = pick(PERM, pa), pick(PERM, pc)
    a = [Q[i] for i in oa if i < len(Q)]
    c = [Q[i] for i in oc if i < len(Q)]
    base, p = phredscores_to_base_call({'A': a, 'C': c})
    return base == 'N'


def _l4_md(k: int, m0: bool, m1: bool, m2: bool, m3: bool, c0: bool, c1: bool, c2: bool, c3: bool) -> bool:
    """
    pre: 1 <= k <= 4
    post: _
    """
    # reference letters may be soft-masked (lower case, flags c*); the query is upper case
    refu = 'ACGT'[:k]
    ref = ''.join((ch.lower() if c else ch) for ch, c in zip(refu, [c0, c1, c2, c3]))
    q = ''.join((('T' if refu[i] != 'T' else 'A') if f else refu[i]) for i, f in enumerate([m0, m1, m2, m3][:k]))
    md = create_MD_tag(ref, q)
    dec, used = S.md_decode(md, q)
    if any(ch.isalpha() and not ch.isupper() for ch in md):
        return False
    if sum(1 for ch in md if ch.isalpha()) != sum(1 for f in [m0, m1, m2, m3][:k] if f):
        return False
    return used == k and dec == refu



def preflight():
    """FakeRead against real pysam records of the repository's test BAM files, accessor by accessor"""
    from stubs.validate import validate_fakeread
    return validate_fakeread(300)

_T = {'quick': 240, 'thorough': 1200}
LEMMAS = [
    dict(name='L1_blocks_cigar', fn='_l1_blocks', engine='E1', timeout=_T, replay='replay.C15:replay',
         cases={'quick': [dict(id='two_l%d' % l, pre=['third == False', 'l1 == %d' % l, 'g2 == 0']) for l in (1, 2, 3)] + [dict(id='three_l%d_s%d' % (l, s), pre=['third == True', 'l1 == %d' % l, 's1 == %d' % s, 'l2 <= 2', 'indel == 0']) for l in (1, 2) for s in (0, 1)]}),
    dict(name='L2_pseudo_reads', fn='_l2_pseudo_reads', engine='E1', timeout=_T, replay='replay.C15:replay',
         cases={'quick': [dict(id='two_span%d_%s_indel%d' % (sp, 'mm' if mm else 'match', ind), pre=['third == False', 'span == %d' % sp, 'mm == %s' % bool(mm), 's1 <= 1', 'l1 <= 2', 'g2 == 0', 'indel == %d' % ind])
                          for sp in (-1, 0, 1, 2) for mm in (0, 1) for ind in (0, 1, 2)] +
                         [dict(id='three_span%d_%s' % (sp, 'mm' if mm else 'match'), pre=['third == True', 'span == %d' % sp, 'mm == %s' % bool(mm), 's1 == 0', 'l1 <= 2', 'l2 <= 2', 'gap >= 0', 'spliced == False', 'indel == 0'])
                          for sp in (-1, 0, 1, 2) for mm in (0, 1)],
                'thorough': [dict(id='%s_span%d_%s_indel%d_l%d' % ('three' if t else 'two', sp, 'mm' if mm else 'match', ind, l), pre=['third == %s' % bool(t), 'span == %d' % sp, 'mm == %s' % bool(mm), 'indel == %d' % ind, 'l1 == %d' % l] + (['spliced == False'] if t else ['g2 == 0']))
                             for t in (0, 1) for sp in (-1, 0, 1, 2, 4) for mm in (0, 1) for ind in (0, 1, 2) for l in (1, 2, 3) if not (ind and l < 2)]}),
    dict(name='L3_call_structure', fn='_l3_call', engine='E1', timeout=_T, replay='replay.C15:replay'),
    dict(name='L3b_call_order_independent', fn='_l3b_call_order', engine='E1', timeout=_T, replay='replay.C15:replay'),
    dict(name='L4_md_roundtrip', fn='_l4_md', engine='E1', timeout=_T, replay='replay.C15:replay'),
]

PROPERTY = dict(
    functions=['molecule.Molecule.get_aligned_blocks / get_CIGAR / get_base_confidence_dict / deduplicate_majority / generate_partial_reads / get_dedup_reads / get_consensus_read / write_tags_to_psuedoreads',
               'utils.iteration.find_ranges', 'sequtils.create_MD_tag / phredscores_to_base_call / base_probabilities_to_likelihood'],
    bounds=dict(coverage='2-3 reads of length 1..3 (third: 1; the second read optionally spliced 1M2N..; the first read optionally with a one-base insertion or deletion after its first base) with overlap / adjacency / gaps 0..4 between them, start 0..3', max_N_span='None, 0..4', mismatch='optional mismatch in the first read',
                call='two bases with 0..3 observations each at 3 confidence levels'),
    outside=['optimality of the likelihood call over all real-valued qualities (floating point)', 'reverse-strand flag and allele tags of the pseudo-read', 'the --consensus command line (replay only)',
             'indels longer than one base or in more than one source read', 'strict SAM form of the MD tag (zeros between adjacent mismatches)', 'positions covered by a single base with P(correct) < 0.5', 'more than ~600 observations per position (float underflow)'],
    assumptions=['the reference contains soft-masked (lower-case) stretches; reads are upper case; MD letters must be upper case and mark true mismatches only', 'pysam.AlignedSegment inside molecule.py replaced by a FakeRead factory (the replay uses real pysam)', 'FakeFasta reference'],
    trusted=['stubs/fakeread.py', 'stubs/fakefasta.py', 'spec/c15.py'],
)
