"""C15 - consensus pseudo-reads are well-formed and span exactly the molecule coverage.
Real code: Molecule.get_aligned_blocks / get_CIGAR / get_base_confidence_dict / deduplicate_majority / generate_partial_reads / get_dedup_reads /
get_consensus_read / write_tags_to_psuedoreads, utils.iteration.find_ranges, sequtils.create_MD_tag / phredscores_to_base_call / base_probabilities_to_likelihood."""
from stubs.fakeread import FakeRead
from stubs.fakefasta import FakeFasta
from spec import c15 as S
from vlib.sym import pick
import singlecellmultiomics.molecule.molecule as MM
from singlecellmultiomics.molecule import Molecule
from singlecellmultiomics.fragment import Fragment
from singlecellmultiomics.utils.sequtils import create_MD_tag, phredscores_to_base_call


class _PysamShim:
    """molecule.py builds its pseudo-reads with pysam.AlignedSegment(header=...): give it FakeRead objects"""
    def __getattr__(self, k):
        import pysam
        return getattr(pysam, k)

    @staticmethod
    def AlignedSegment(header=None):
        r = FakeRead(query_name=None, reference_name=None, reference_start=None, cigartuples=None, seq=None, qual=None, is_read1=False)
        return r


MM.pysam = _PysamShim()


class _Target:
    header = None


def _reads(s1, l1, gap, l2, third, g2, mm, spliced=False):
    """read a covers [s1, s1+l1); read b starts gap after a's end (gap < 0: overlap); optional read c after another gap"""
    out = []
    pos = s1
    specs = [(s1, l1)]
    s2 = s1 + l1 + gap
    specs.append((s2, l2))
    if third:
        specs.append((s2 + l2 + g2, 1))
    for i, (s, l) in enumerate(specs):
        seq = S.REF[s:s + l]
        if mm and i == 0:
            seq = ('T' if seq[0] != 'T' else 'A') + seq[1:]
        cig = [(0, l)]
        if spliced and i == 1 and l >= 2:
            # read b is spliced: 1M 2N (l-1)M ; it covers s and s+3.. only, the skipped bases are NOT covered
            cig = [(0, 1), (3, 2), (0, l - 1)]
            seq = S.REF[s] + S.REF[s + 3:s + 3 + l - 1]
        out.append(FakeRead(query_name='r%d' % i, reference_name='chr1', reference_start=s, cigartuples=cig, seq=seq, qual='I' * l,
                            is_read1=True, is_read2=False, tags={'SM': 'lib_1', 'RX': 'ACG', 'BC': 'ACGT'}))
    return out


def _molecule(reads):
    m = Molecule(reference=FakeFasta({'chr1': S.REF}))
    for r in reads:
        m._add_fragment(Fragment([r, None], umi_hamming_distance=0))
    m.sample = 'lib_1'
    return m


def _l1_blocks(s1: int, l1: int, gap: int, l2: int, third: bool, g2: int) -> bool:
    """
    pre: 0 <= s1 <= 3
    pre: 1 <= l1 <= 3 and 1 <= l2 <= 3
    pre: -2 <= gap <= 4
    pre: 0 <= g2 <= 3
    pre: s1 + l1 + gap >= 0
    post: _
    """
    R = list(range(-2, 6))
    s1, l1, gap, l2, g2 = pick(R, s1 + 2), pick(R, l1 + 2), pick(R, gap + 2), pick(R, l2 + 2), pick(R, g2 + 2)
    reads = _reads(s1, l1, gap, l2, third, g2, False)
    m = _molecule(reads)
    cov = S.covered(reads)
    want = S.runs(cov)
    if list(m.get_aligned_blocks()) != want:
        return False
    cig, a_start, a_end = m.get_CIGAR()
    if a_start != cov[0] or a_end != cov[-1]:
        return False
    if sum(n for op, n in cig if op == 'M') != len(cov):
        return False
    gaps = [want[i + 1][0] - want[i][1] - 1 for i in range(len(want) - 1)]
    return [n for op, n in cig if op == 'N'] == gaps and [op for op, n in cig] == (['M', 'N'] * len(want))[:2 * len(want) - 1]


def _l2_pseudo_reads(s1: int, l1: int, gap: int, l2: int, third: bool, g2: int, span: int, mm: bool, spliced: bool) -> bool:
    """
    pre: 0 <= s1 <= 3
    pre: 1 <= l1 <= 3 and 1 <= l2 <= 3
    pre: -2 <= gap <= 4
    pre: 0 <= g2 <= 3
    pre: -1 <= span <= 4
    pre: s1 + l1 + gap >= 0
    post: _
    """
    R = list(range(-2, 6))
    s1, l1, gap, l2, g2 = pick(R, s1 + 2), pick(R, l1 + 2), pick(R, gap + 2), pick(R, l2 + 2), pick(R, g2 + 2)   # concrete geometry per path
    reads = _reads(s1, l1, gap, l2, third, g2, mm, spliced)
    m = _molecule(reads)
    max_N_span = None if span < 0 else pick(R, span + 2)
    out = m.deduplicate_majority(_Target(), 'cons', max_N_span=max_N_span)
    cov = S.covered(reads)
    cov_runs = S.runs(cov)
    # expected calls: every covered position has one observed base (all reads agree except the optional mismatch of read 0)
    calls = {}
    for r in reads:
        for (q, p) in r.get_aligned_pairs(matches_only=True):
            calls.setdefault(p, set()).add(r.query_sequence[q])
    calls = {p: (list(b)[0] if len(b) == 1 else None) for p, b in calls.items()}
    seen = []
    for rec in out:
        res = S.record_clause(rec, S.REF, calls, max_N_span, cov_runs)
        if not isinstance(res, tuple):
            return False
        seen.extend(res[1])
        if rec.get_tag('SM') != 'lib_1' or rec.get_tag('RX') != 'ACG' or rec.get_tag('TF') != len(reads):
            return False
        if rec.reference_name != 'chr1':
            return False
    if sorted(seen) != cov_runs:
        return False
    # records are split exactly at the gaps larger than max_N_span
    big = 0 if max_N_span is None else len([1 for i in range(len(cov_runs) - 1) if cov_runs[i + 1][0] - cov_runs[i][1] - 1 > max_N_span])
    return len(out) == big + 1


def _l3_call(na: int, nc: int, qa: int, qc: int) -> bool:
    """
    pre: 0 <= na <= 3 and 0 <= nc <= 3
    pre: 0 <= qa <= 4 and 0 <= qc <= 4
    pre: na + nc >= 1
    post: _
    """
    P = [0.9, 0.99, 0.999, 0.99999, 0.999999]     # up to Q50 / Q60: a decidable call must not be reported as a tie
    probs = {}
    if na:
        probs['A'] = [pick(P, qa)] * na
    if nc:
        probs['C'] = [pick(P, qc)] * nc
    base, p = phredscores_to_base_call(probs)
    if nc == 0:
        return base == 'A'
    if na == 0:
        return base == 'C'
    if na == nc and qa == qc:
        return base == 'N'
    # more observations of equal quality, or equally many of better quality, win
    if qa == qc:
        return base == ('A' if na > nc else 'C')
    if na == nc:
        return base == ('A' if qa > qc else 'C')
    return base in 'ACN'


def _l4_md(k: int, m0: bool, m1: bool, m2: bool, m3: bool) -> bool:
    """
    pre: 1 <= k <= 4
    post: _
    """
    ref = 'ACGT'[:k]
    q = ''.join((('T' if ref[i] != 'T' else 'A') if f else ref[i]) for i, f in enumerate([m0, m1, m2, m3][:k]))
    md = create_MD_tag(ref, q)
    dec, used = S.md_decode(md, q)
    return used == k and dec == ref


_T = {'quick': 240, 'thorough': 1200}
LEMMAS = [
    dict(name='L1_blocks_cigar', fn='_l1_blocks', engine='E1', timeout=_T, replay='replay.C15:replay',
         cases={'quick': [dict(id='two_l%d' % l, pre=['third == False', 'l1 == %d' % l, 'g2 == 0']) for l in (1, 2, 3)] + [dict(id='three_l%d_s%d' % (l, s), pre=['third == True', 'l1 == %d' % l, 's1 == %d' % s, 'l2 <= 2']) for l in (1, 2) for s in (0, 1)]}),
    dict(name='L2_pseudo_reads', fn='_l2_pseudo_reads', engine='E1', timeout=_T, replay='replay.C15:replay',
         cases={'quick': [dict(id='%s_span%d_%s' % ('three' if t else 'two', sp, 'mm' if mm else 'match'), pre=['third == %s' % bool(t), 'span == %d' % sp, 'mm == %s' % bool(mm), 's1 <= 1', 'l1 <= 2'] + (['l2 <= 2', 'gap >= 0', 's1 == 0', 'spliced == False'] if t else ['g2 == 0']))
                          for t in (0, 1) for sp in (-1, 0, 1, 2) for mm in (0, 1)]}),
    dict(name='L3_call_structure', fn='_l3_call', engine='E1', timeout=_T, replay='replay.C15:replay'),
    dict(name='L4_md_roundtrip', fn='_l4_md', engine='E1', timeout=_T, replay='replay.C15:replay'),
]

PROPERTY = dict(
    functions=['molecule.Molecule.get_aligned_blocks / get_CIGAR / get_base_confidence_dict / deduplicate_majority / generate_partial_reads / get_dedup_reads / get_consensus_read / write_tags_to_psuedoreads',
               'utils.iteration.find_ranges', 'sequtils.create_MD_tag / phredscores_to_base_call / base_probabilities_to_likelihood'],
    bounds=dict(coverage='2-3 reads of length 1..3 (third: 1; the second read optionally spliced 1M2N..) with overlap / adjacency / gaps 0..4 between them, start 0..3', max_N_span='None, 0..4', mismatch='optional mismatch in the first read',
                call='two bases with 0..3 observations each at 3 confidence levels'),
    outside=['optimality of the likelihood call over all real-valued qualities (floating point)', 'reverse-strand flag and allele tags of the pseudo-read', 'the --consensus command line (replay only)',
             'indels in the source reads'],
    assumptions=['pysam.AlignedSegment inside molecule.py replaced by a FakeRead factory (the replay uses real pysam)', 'FakeFasta reference'],
    trusted=['stubs/fakeread.py', 'stubs/fakefasta.py', 'spec/c15.py'],
)
