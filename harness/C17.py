"""C17 - blacklist-aware genome tiling is an exact partition with contained fetch windows.
Real code: bamBinCounts.fill_range / trim_rangelist / merge_overlapping_ranges / blacklisted_binning, utils.binning.bp_chunked."""
from vlib import floatcut
from spec import c17 as S
import singlecellmultiomics.bamProcessing.bamBinCounts as B
from singlecellmultiomics.utils.binning import bp_chunked

_CUTS = floatcut.install(B, ['blacklisted_binning'])


def _l1_fill(start: int, span: int, step: int) -> bool:
    """
    pre: 0 <= span <= 8
    pre: 1 <= step <= 9
    post: _
    """
    return S.check_fill_range(B.fill_range, start, span, step) is None


def _l3_partition(st: int, L: int, b: int, nb: int, a0: int, a1: int, b0: int, b1: int) -> bool:
    """
    pre: 0 <= st <= 2
    pre: 1 <= L <= 8
    pre: 1 <= b <= 9
    pre: 0 <= nb <= 2
    pre: -1 <= a0 < a1 <= 12
    pre: -1 <= b0 < b1 <= 12
    post: _
    """
    bl = [(a0, a1), (b0, b1)][:nb]
    return S.check_tiling(B.blacklisted_binning, st, L, b, bl, None) is None


def _l4_windows(st: int, L: int, b: int, nb: int, a0: int, a1: int, b0: int, b1: int, F: int) -> bool:
    """
    pre: 0 <= st <= 2
    pre: 1 <= L <= 12
    pre: 1 <= b <= 9
    pre: 0 <= nb <= 2
    pre: -1 <= a0 < a1 <= 12
    pre: -1 <= b0 < b1 <= 12
    pre: 0 <= F
    post: _
    """
    bl = [(a0, a1), (b0, b1)][:nb]
    return S.check_tiling(B.blacklisted_binning, st, L, b, bl, F) is None


def _l6_chunked(n: int, z0: int, z1: int, z2: int, z3: int, bp: int) -> bool:
    """
    pre: 0 <= n <= 4
    pre: 1 <= z0 and 1 <= z1 and 1 <= z2 and 1 <= z3
    pre: 1 <= bp
    post: _
    """
    return S.check_bp_chunked(bp_chunked, [z0, z1, z2, z3][:n], bp) is None


_T = {'quick': 200, 'thorough': 1200}
_split = lambda Ls, nbs: [dict(id='L%d_nb%d' % (L, nb), pre=['L == %d' % L, 'nb == %d' % nb]) for L in Ls for nb in nbs]
LEMMAS = [
    dict(name='L1_fill_range', fn='_l1_fill', engine='E1', timeout=_T, replay='replay.C17:replay'),
    dict(name='L3_partition', fn='_l3_partition', engine='E1', timeout=_T, replay='replay.C17:replay',
         cases={'quick': _split((1, 2, 3, 4, 5), (0, 1)) + _split((6, 7, 8), (0,)) + _split((2, 3, 4), (2,)),
                'thorough': _split((1, 2, 3, 4, 5, 6, 7, 8), (0, 1, 2))}),
    dict(name='L4_fetch_windows', fn='_l4_windows', engine='E1', timeout=_T, replay='replay.C17:replay',
         cases={'quick': _split((1, 2, 3, 4, 5), (0, 1)) + _split((6, 7, 8, 9, 10, 11, 12), (0,)) + _split((3, 4), (2,)),
                'thorough': _split((1, 2, 3, 4, 5, 6, 7, 8), (0, 1, 2))}),
    dict(name='L6_bp_chunked', fn='_l6_chunked', engine='E1', timeout=_T, replay='replay.C17:replay'),
]

PROPERTY = dict(
    functions=['bamBinCounts.fill_range', 'bamBinCounts.trim_rangelist', 'bamBinCounts.merge_overlapping_ranges/_merge_overlapping_ranges/range_contains_overlap',
               'bamBinCounts.blacklisted_binning', 'utils.binning.bp_chunked'],
    bounds={'quick': dict(region_start='0..2', region_length='1..5 with <=1 blacklist interval, 2..4 with 2, 6..8 (fetch windows: 6..12) without blacklist', bin_size='1..9', blacklist='<=2 intervals with ends in -1..12, any overlap/order',
                          fragment_size='unbounded >= 0', fill_range='start unbounded, span<=8, step<=9', bp_chunked='<=4 tasks, unbounded sizes'),
            'thorough': dict(region_length='1..8', blacklist='<=2')},
    outside=['BED parsing (get_bins_from_bed_dict)', 'regions longer than 8 / more than 2 blacklist intervals', 'more_itertools.windowed (third party, executed symbolically as is)'],
    assumptions=['float cut in blacklisted_binning: int((start-current)/total_bins) == (start-current)//total_bins for non-negative operands (lemma F); cuts: %r' % (_CUTS,)],
    trusted=['spec/c17.py', 'vlib/floatcut.py'],
)
