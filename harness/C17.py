"""C17 - blacklist-aware genome tiling is an exact partition with contained fetch windows.
Real code: bamBinCounts.fill_range / trim_rangelist / merge_overlapping_ranges / blacklisted_binning, utils.binning.bp_chunked."""
from vlib import floatcut
from spec import c17 as S
import singlecellmultiomics.bamProcessing.bamBinCounts as B
from singlecellmultiomics.utils.binning import bp_chunked

_CUTS = floatcut.install(B, ['blacklisted_binning'])


def _l1_fill(start: int, span: int, step: int) -> bool:
    """
    pre: 0 <= span <= 8
    pre: 1 <= step <= 9
    post: _
    """
    return S.check_fill_range(B.fill_range, start, span, step) is None


def _l3_partition(st: int, L: int, b: int, nb: int, a0: int, a1: int, b0: int, b1: int) -> bool:
    """
    pre: 0 <= st <= 2
    pre: 1 <= L <= 8
    pre: 1 <= b <= 9
    pre: 0 <= nb <= 2
    pre: -1 <= a0 < a1 <= 12
    pre: -1 <= b0 < b1 <= 12
    post: _
    """
    bl = [(a0, a1), (b0, b1)][:nb]
    return S.check_tiling(B.blacklisted_binning, st, L, b, bl, None) is None


def _l4_windows(st: int, L: int, b: int, nb: int, a0: int, a1: int, b0: int, b1: int, F: int) -> bool:
    """
    pre: 0 <= st <= 2
    pre: 1 <= L <= 12
    pre: 1 <= b <= 9
    pre: 0 <= nb <= 2
    pre: -1 <= a0 < a1 <= 12
    pre: -1 <= b0 < b1 <= 12
    pre: 0 <= F
    post: _
    """
    bl = [(a0, a1), (b0, b1)][:nb]
    return S.check_tiling(B.blacklisted_binning, st, L, b, bl, F) is None


def _l6_chunked(n: int, z0: int, z1: int, z2: int, z3: int, bp: int) -> bool:
    """
    pre: 0 <= n <= 4
    pre: 1 <= z0 and 1 <= z1 and 1 <= z2 and 1 <= z3
    pre: 1 <= bp
    post: _
    """
    return S.check_bp_chunked(bp_chunked, [z0, z1, z2, z3][:n], bp) is None


def l5_local_bin_size_e2(tier='quick', case=None, seed=0):
    """E2 (own AST -> z3 translation, unbounded integers): the bin-size arithmetic of blacklisted_binning.
    For every blacklist-free stretch of length >= 1 and every requested bin size >= 1 the optimised local bin size read from
    the source (`local_bin_size = int((start - current) / total_bins)`, with the `total_bins == 0 -> 1` adjustment) lies in
    [1, bin_size]: bins are never empty and never larger than requested, for stretches of ANY length."""
    import ast, inspect, time, z3
    from vlib import py2smt as T
    src = inspect.getsource(getattr(B.blacklisted_binning, "__floatcut_orig__", B.blacklisted_binning))     # NB: original source text (the float cut only affects the compiled object)
    fn = ast.parse(__import__('textwrap').dedent(src)).body[0]
    assign = [n for n in ast.walk(fn) if isinstance(n, ast.Assign) and ast.unparse(n.targets[0]) == 'local_bin_size']
    count = [n for n in ast.walk(fn) if isinstance(n, ast.Assign) and ast.unparse(n.targets[0]) == 'total_bins' and 'fill_range' in ast.unparse(n.value)]
    zero_fix = [n for n in ast.walk(fn) if isinstance(n, ast.If) and ast.unparse(n.test) == 'total_bins == 0']
    if len(assign) != 1 or len(count) != 1 or len(zero_fix) != 1:
        return dict(verdict='error', detail='anchor statements not found in blacklisted_binning (local_bin_size=%d total_bins=%d zero_fix=%d)' % (len(assign), len(count), len(zero_fix)))
    if ast.unparse(count[0].value) != 'len(list(fill_range(current, start, bin_size)))':
        return dict(verdict='error', detail='total_bins is no longer the number of fill_range(current, start, bin_size) steps: %s' % ast.unparse(count[0].value))
    start, current, b, nsteps = z3.Ints('start current bin_size nsteps')
    tr = T.Translator()
    fixed = tr.ev(zero_fix[0].body[0].value, {})
    total = T.ite(nsteps == 0, fixed, nsteps)
    local = tr.ev(assign[0].value, dict(start=start, current=current, total_bins=total))
    py_expr = compile(ast.Expression(assign[0].value), '<blacklisted_binning:local_bin_size>', 'eval')
    stretch = start - current
    # contract of fill_range (validated below against the real generator, and proved for spans <= 8 by L1): ceil(span / step) steps
    steps_axiom = z3.And(nsteps * b >= stretch, (nsteps - 1) * b < stretch)
    pts = bad = 0
    for sp in list(range(1, 40)) + [999, 1000, 1001, 123457]:
        for bv in (1, 2, 3, 4, 7, 10, 1000, 50000):
            n_real = len(list(B.fill_range(5, 5 + sp, bv)))
            pts += 1
            if not (n_real * bv >= sp and (n_real - 1) * bv < sp):
                bad += 1
            enc = z3.simplify(z3.substitute(local, (start, z3.IntVal(5 + sp)), (current, z3.IntVal(5)), (nsteps, z3.IntVal(n_real))))
            py = eval(py_expr, dict(vars(B)), dict(start=5 + sp, current=5, total_bins=(n_real if n_real else fixed)))   # the source expression run by CPython
            if enc.as_long() != py:
                bad += 1
    if bad:
        return dict(verdict='error', detail='fill_range step-count contract / translator validation failed on %d of %d points' % (bad, pts))
    pre = [stretch >= 1, b >= 1, steps_axiom]
    r0, m0, _ = T.solve(pre, seed=seed)
    if r0 != 'sat':
        return dict(verdict='vacuous', detail='reach: ' + r0)
    res, n, tot = [], 0, 0.0
    for name, g in (('local_bin_size >= 1', local < 1), ('largest emitted bin min(local_bin_size, stretch) <= bin_size', T.ite(local < stretch, local, stretch) > b)):
        r, model, dt = T.solve(pre + [g], timeout_ms=60000, seed=seed)
        n += 1; tot += dt
        res.append((name, r, model))
    out = dict(solver_calls=n, solver_s=round(tot, 3), paths=0, nontrivial=n + pts, detail='; '.join('%s: %s' % (a, r) for a, r, _ in res) + ' | ' + T.cross_summary(),
               samples=[dict(lemma='L5_local_bin_size', kind='reachability witness', input=m0),
                        dict(lemma='L5_local_bin_size', kind='validation points (real fill_range step count, encoded expression vs python)', count=pts)])
    sat = [x for x in res if x[1] == 'sat']
    if sat:
        out.update(verdict='refuted', cex=dict(sat[0][2], goal=sat[0][0]))
    elif all(x[1] == 'unsat' for x in res):
        out['verdict'] = 'unsat'
    else:
        out['verdict'] = 'unknown'
    return out


_T = {'quick': 200, 'thorough': 1200}
_split = lambda Ls, nbs: [dict(id='L%d_nb%d' % (L, nb), pre=['L == %d' % L, 'nb == %d' % nb]) for L in Ls for nb in nbs]
# two blacklist intervals: split on their relative order and on whether the first one starts inside the region
_split2 = lambda Ls: [dict(id='L%d_nb2_%s' % (L, nm), pre=['L == %d' % L, 'nb == 2'] + pre) for L in Ls for nm, pre in (
    ('a_first_neg', ['a0 <= b0', 'a0 <= 0']), ('a_first_low', ['a0 <= b0', '1 <= a0 <= 2']), ('a_first_high', ['a0 <= b0', 'a0 > 2']),
    ('b_first_neg', ['b0 < a0', 'b0 <= 0']), ('b_first_low', ['b0 < a0', '1 <= b0 <= 2']), ('b_first_high', ['b0 < a0', 'b0 > 2']))]
LEMMAS = [
    dict(name='L1_fill_range', fn='_l1_fill', engine='E1', timeout=_T, replay='replay.C17:replay'),
    dict(name='L3_partition', fn='_l3_partition', engine='E1', timeout=_T, replay='replay.C17:replay',
         cases={'quick': _split((1, 2, 3, 4, 5), (0, 1)) + _split((6, 7, 8), (0,)) + _split((2, 3, 4), (2,)),
                'thorough': _split((1, 2, 3, 4, 5, 6, 7, 8), (0, 1, 2))}),
    dict(name='L4_fetch_windows', fn='_l4_windows', engine='E1', timeout=_T, replay='replay.C17:replay',
         cases={'quick': _split((1, 2, 3, 4, 5), (0, 1)) + _split((6, 7, 8, 9, 10, 11, 12), (0,)) + _split2((3, 4)),
                'thorough': _split((1, 2, 3, 4, 5, 6, 7, 8), (0, 1)) + _split2((1, 2, 3, 4, 5, 6, 7, 8))}),
    dict(name='L5_local_bin_size_unbounded', run='l5_local_bin_size_e2', engine='E2', timeout=_T, replay='replay.C17:replay'),
    dict(name='L6_bp_chunked', fn='_l6_chunked', engine='E1', timeout=_T, replay='replay.C17:replay'),
]

PROPERTY = dict(
    functions=['bamBinCounts.fill_range', 'bamBinCounts.trim_rangelist', 'bamBinCounts.merge_overlapping_ranges/_merge_overlapping_ranges/range_contains_overlap',
               'bamBinCounts.blacklisted_binning', 'utils.binning.bp_chunked'],
    bounds={'quick': dict(region_start='0..2', region_length='1..5 with <=1 blacklist interval, 2..4 with 2, 6..8 (fetch windows: 6..12) without blacklist', bin_size='1..9', blacklist='<=2 intervals with ends in -1..12, any overlap/order',
                          fragment_size='unbounded >= 0', fill_range='start unbounded, span<=8, step<=9', local_bin_size='E2: stretch and bin size UNBOUNDED (>= 1)', bp_chunked='<=4 tasks, unbounded sizes'),
            'thorough': dict(region_length='1..8', blacklist='<=2')},
    outside=['BED parsing (get_bins_from_bed_dict)', 'regions longer than 8 / more than 2 blacklist intervals', 'more_itertools.windowed (third party, executed symbolically as is)', 'the trailing empty chunk bp_chunked yields when the last bin exactly fills a chunk'],
    assumptions=['float cut in blacklisted_binning: int((start-current)/total_bins) == (start-current)//total_bins for non-negative operands (lemma F); cuts: %r' % (_CUTS,)],
    trusted=['spec/c17.py', 'vlib/floatcut.py'],
)
