"""C18 - allele lookups agree with the VCF in every loading mode.
Real code: alleleTools.AlleleResolver.__init__/fetchChromosome/write_cache/read_cached/getAllelesAt/has_location/clean_vcf_name."""
from stubs import fakevcf
from spec import c18 as S
from vlib.sym import pick
import singlecellmultiomics.alleleTools.alleleTools as AT

BASES = 'ACGT'


def _install(world):
    AT.pysam = fakevcf.make_pysam(world)
    AT.gzip, AT.os = fakevcf.make_gzip_os(world)


def _l1_site_rules(a1: int, a2: int, b1: int, refi: int, sel: int, phased: bool, ign: int, qb: int) -> bool:
    """
    pre: 0 <= a1 <= 5 and 0 <= a2 <= 5 and 0 <= b1 <= 5
    pre: 0 <= refi <= 1
    pre: 0 <= sel <= 2
    pre: 0 <= ign <= 2
    pre: 0 <= qb <= 3
    post: _
    """
    ref = pick(['C', 'A'], refi)
    gts = {'s1': (pick(S.ALLELES, a1), pick(S.ALLELES, a2)), 's2': (pick(S.ALLELES, b1),)}
    alts = ('T',)
    world = fakevcf.World([fakevcf.Rec('chr1', 11, ref, alts, gts)], ['chr1', 'chr2'])
    _install(world)
    select = pick([None, ['s1'], ['s1', 's2']], sel)
    ignore = pick([None, {('C', 'T')}, {('C', 'T'), ('G', 'A')}], ign)
    ar = AT.AlleleResolver('x.vcf', chrom='chr1', phased=phased, select_samples=select, ignore_conversions=ignore)
    base = pick(BASES, qb)
    got = ar.getAllelesAt('chr1', 10, base)
    want = S.site_answer((ref, alts, gts), select, phased, ignore, base)
    if (got is None) != (want is None):
        return False
    if got is not None and set(got) != want:
        return False
    # absent site / other contig
    return ar.getAllelesAt('chr1', 11, base) is None and ar.getAllelesAt('chr2', 10, base) is None


RECS = [('chr1', 11, 'C', ('T',), {'s1': ('C',), 's2': ('T',)}), ('chr2', 21, 'A', ('G',), {'s1': ('G',), 's2': ('A',)}),
        ('chr1', 26, 'C', ('T',), {'s1': ('C',), 's2': (None,)}),      # missing genotype: usable with the base that was seen (single base!)
        ('chr1', 31, 'G', ('A',), {'s1': ('G',), 's2': ('G',)}),       # monomorphic, directly after the missing-genotype record: uninformative
        ('chr2', 36, 'T', ('TGG',), {'s1': ('T',), 's2': ('TGG',)})]   # multi-base allele: not a single-nucleotide site
QUERIES = ((10, 'C'), (10, 'T'), (20, 'G'), (25, 'C'), (30, 'G'), (35, 'T'), (10, 'A'))


def _answers(ar, order):
    out = []
    for ci in order:
        chrom = pick(['chr1', 'chr2', 'chr3'], ci)
        for pos, base in QUERIES:
            r = ar.getAllelesAt(chrom, pos, base)
            out.append(None if r is None else sorted(r))
    return out


def _want(order):
    out = []
    for ci in order:
        chrom = ['chr1', 'chr2', 'chr3'][ci]
        for pos, base in QUERIES:
            ans = None
            for (c, p, ref, alts, gts) in RECS:
                if c == chrom and p - 1 == pos:
                    a = S.site_answer((ref, alts, gts), None, True, None, base)
                    ans = None if a is None else sorted(a)
            out.append(ans)
    return out


def _l3_modes(mode: int, o0: int, o1: int, o2: int, lazy_flag: bool) -> bool:
    """
    pre: 0 <= mode <= 3
    pre: 0 <= o0 <= 2 and 0 <= o1 <= 2 and 0 <= o2 <= 2
    post: _
    """
    world = fakevcf.World([fakevcf.Rec(*r) for r in RECS], ['chr1', 'chr2'])
    _install(world)
    order = [o0, o1, o2]
    want = _want(order)
    if mode == 0:      # eager: everything loaded by the constructor
        ar = AT.AlleleResolver('x.vcf', lazyLoad=False)
        return _answers(ar, order) == want
    if mode == 1:      # lazy per contig (evicts the previous contig)
        ar = AT.AlleleResolver('x.vcf', lazyLoad=True)
        return _answers(ar, order) == want
    if mode == 2:      # on-disk cache, first run (writes the cache); the lazyLoad flag must not matter
        ar = AT.AlleleResolver('x.vcf', lazyLoad=lazy_flag, use_cache=True)
        return _answers(ar, order) == want
    # cache, second run: a first resolver touches every contig (writes the cache), a second one answers from it
    first = AT.AlleleResolver('x.vcf', lazyLoad=True, use_cache=True)
    _answers(first, [0, 1])
    n_fetch = len(world.fetches)
    second = AT.AlleleResolver('x.vcf', lazyLoad=lazy_flag, use_cache=True)
    ok = _answers(second, order) == want
    # cached contigs are not read from the VCF again
    return ok and all(c == 'chr3' for c in world.fetches[n_fetch:])


_T = {'quick': 200, 'thorough': 900}
LEMMAS = [
    dict(name='L1_site_rules', fn='_l1_site_rules', engine='E1', timeout=_T, replay='replay.C18:replay',
         cases={'quick': [dict(id='a%d_%s' % (a, 'ph' if p else 'un'), pre=['a1 == %d' % a, 'phased == %s' % bool(p)]) for a in range(6) for p in (1, 0)]}),
    dict(name='L3_loading_modes', fn='_l3_modes', engine='E1', timeout=_T, replay='replay.C18:replay',
         cases={'quick': [dict(id='mode%d' % m, pre=['mode == %d' % m]) for m in range(4)]}),
]

PROPERTY = dict(
    functions=['alleleTools.AlleleResolver.__init__ / fetchChromosome / write_cache / read_cached / getAllelesAt / clean_vcf_name'],
    bounds=dict(site='one record, 2 samples (one with two alleles), every allele over {A,C,G,T,multi-base,missing}, reference C or A, 3 sample selections, phased / unphased, 3 ignore sets, every query base',
                modes='5 records on 2 contigs (informative, missing genotype, monomorphic, multi-base) (+1 contig absent from the VCF); eager, lazy, cache first run, cache second run; both values of lazyLoad with use_cache; every access order of 3 contig visits incl. returning to an evicted contig'),
    outside=['htslib VCF parsing and index', 'the "ugly mode" text parser', 'region_start / region_end', 'getAllele over reads',
             'a cache directory shared between runs with different phased / ignore_conversions / region options (the cache file name encodes only contig and sample selection)', 'has_location() on unknown contigs', 'duplicate names in select_samples', 'position -1 (internal sentinel)'],
    assumptions=['pysam.VariantFile / gzip / os inside alleleTools replaced by stubs/fakevcf.py', 'a single-nucleotide site with a missing genotype is usable with the bases that were seen (pinned behaviour); a multi-base allele always disqualifies the site'],
    trusted=['stubs/fakevcf.py', 'spec/c18.py'],
)
