"""C19 - per-cell file splitting loses no record under handle limits and open failures.
Real code: HandleLimiter.write/prune/close, FastqHandle.write (single-cell mode). Environment: MemFS."""
from stubs.memfs import MemFS
from spec import c19 as S
import singlecellmultiomics.pyutils.handlelimiter as HLmod
from singlecellmultiomics.pyutils.handlelimiter import HandleLimiter
import singlecellmultiomics.fastqProcessing.fastqHandle as FHmod


def _install(fs):
    HLmod.gzip = fs
    HLmod.open = fs.builtin_open
    HLmod.time = fs


def _run(writes, k, maxh, prune, method, fail_at, perm):
    fs = MemFS(limit=k, fail_at=fail_at, perm_path=(None if perm is None else S.PATHS[perm]))
    _install(fs)
    hl, expected, exc, failed_at = S.run_writes(lambda: HandleLimiter(maxHandles=maxh, pruneEvery=prune), writes, method)
    # contents
    for p in S.PATHS:
        if fs.content(p) != expected.get(p, ''):
            return 'content'
    if fs.open_count != 0:
        return 'descriptors_leaked'
    if exc is not None:
        # allowed only if the failing open happened with every other handle closed
        if not fs.failed_with_others_open or fs.failed_with_others_open[-1] != 0:
            return 'raised_with_others_open:' + type(exc).__name__
    else:
        if perm is not None and any(w == perm for w in writes):
            return 'permanent_failure_swallowed'
    return None


def _l1_emfile(n: int, w0: int, w1: int, w2: int, w3: int, w4: int, k: int, maxh: int, prune: int, gz: bool) -> bool:
    """
    pre: 1 <= n <= 5
    pre: 0 <= w0 <= 2 and 0 <= w1 <= 2 and 0 <= w2 <= 2 and 0 <= w3 <= 2 and 0 <= w4 <= 2
    pre: 1 <= k <= 3
    pre: 1 <= maxh <= 3
    pre: 1 <= prune <= 3
    post: _
    """
    writes = [w0, w1, w2, w3, w4][:n]
    return _run(writes, k, maxh, prune, 1 if gz else 0, None, None) is None


def _l1_faults(n: int, w0: int, w1: int, w2: int, w3: int, k: int, maxh: int, prune: int, transient: bool, t: int) -> bool:
    """
    pre: 1 <= n <= 4
    pre: 0 <= w0 <= 2 and 0 <= w1 <= 2 and 0 <= w2 <= 2 and 0 <= w3 <= 2
    pre: 2 <= k <= 4
    pre: 1 <= maxh <= 3
    pre: 1 <= prune <= 3
    pre: 0 <= t <= 2
    post: _
    """
    writes = [w0, w1, w2, w3][:n]
    if transient:
        return _run(writes, k, maxh, prune, 1, t, None) is None
    return _run(writes, k, maxh, prune, 1, None, t) is None


def _l1c_after_failure(n: int, w0: int, w1: int, w2: int, w3: int, maxh: int, prune: int, t: int) -> bool:
    """
    pre: 2 <= n <= 4
    pre: 0 <= w0 <= 2 and 0 <= w1 <= 2 and 0 <= w2 <= 2 and 0 <= w3 <= 2
    pre: 1 <= maxh <= 3
    pre: 1 <= prune <= 3
    pre: 0 <= t <= 2
    post: _
    """
    # one transient open() failure (call number t). If it strikes while nothing else is open the write legitimately raises; the
    # caller survives it and keeps writing: every later write must either succeed or fail for a genuine open() failure again -
    # never because of what the failed attempt left behind - and the files hold exactly the records whose write returned
    import errno
    writes = [w0, w1, w2, w3][:n]
    fs = MemFS(limit=None, fail_at=t, perm_path=None)
    _install(fs)
    errors = []
    hl, expected, exc, failed_at = S.run_writes(lambda: HandleLimiter(maxHandles=maxh, pruneEvery=prune), writes, 1, keep_going=True, errors=errors)
    for i, e in errors:
        if not isinstance(e, OSError):
            return False                       # e.g. KeyError: not an open() failure
    if len(errors) > 1:
        return False                           # a single transient failure can make at most one write fail
    if errors and (not fs.failed_with_others_open or fs.failed_with_others_open[-1] != 0):
        return False
    for p in S.PATHS:
        if fs.content(p) != expected.get(p, ''):
            return False
    return fs.open_count == 0


class _Rec:
    def __init__(self, text, tags):
        self.text, self.tags = text, tags

    def __str__(self):
        return self.text


def _l2_fastqhandle(n: int, c0: int, c1: int, c2: int, k: int, maxh: int, stale: bool) -> bool:
    """
    pre: 1 <= n <= 3
    pre: 0 <= c0 <= 1 and 0 <= c1 <= 1 and 0 <= c2 <= 1
    pre: 1 <= k <= 3
    pre: 1 <= maxh <= 4
    post: _
    """
    fs = MemFS(limit=k)
    _install(fs)
    if stale:   # files of an earlier run at the same output location must be replaced, not appended to
        fs.files['out/lib.1.CS2.R1.fastq.gz'] = ['@old/1\nT\n+\nI\n']
        fs.files['out/lib.1.CS2.R2.fastq.gz'] = ['@old/2\nT\n+\nI\n']
    fh = FHmod.FastqHandle('out/lib', pairedEnd=True, single_cell=True, maxHandles=maxh)
    fh.handles.pruneEvery = 2
    cells = [c0, c1, c2][:n]
    exp = {}
    for i, c in enumerate(cells):
        tags = {'bi': c + 1, 'MX': 'CS2'}
        r1 = _Rec('@p%d/1\nA\n+\nI\n' % i, tags)
        r2 = _Rec('@p%d/2\nC\n+\nI\n' % i, tags)
        fh.write([r1, r2])
        for mate, rec in (('R1', r1), ('R2', r2)):
            key = 'out/lib.%d.CS2.%s.fastq.gz' % (c + 1, mate)
            exp[key] = exp.get(key, '') + rec.text
    fh.close()
    if fs.open_count != 0:
        return False
    if set(k_ for k_ in fs.files if fs.files[k_]) - set(['out/lib.1.CS2.R1.fastq.gz', 'out/lib.1.CS2.R2.fastq.gz'] if stale else []) != set(exp) - set(['out/lib.1.CS2.R1.fastq.gz', 'out/lib.1.CS2.R2.fastq.gz'] if stale else []):
        return False
    for key in exp:
        if fs.content(key) != exp[key]:
            return False
    return True


import singlecellmultiomics.bamProcessing.bamSplitByTag as BSmod
from stubs.fakebam import SplitPysam, SerialPool
from stubs.fakeread import FakeRead
from vlib.astcut import cut_main
from vlib.sym import pick

BSmod.print = lambda *a, **k: None          # progress output is not the subject
BSmod.Pool = SerialPool
_split_driver = cut_main(BSmod, 'skip = set()', params=('args', 'output_prefix'), result='skip')   # the command-line multi-pass loop


class _Args:
    pass


def _l3_bam_split(n: int, t0: int, t1: int, t2: int, t3: int, t4: int, maxh: int) -> bool:
    """
    pre: 1 <= n <= 5
    pre: 0 <= t0 <= 3 and 0 <= t1 <= 3 and 0 <= t2 <= 3 and 0 <= t3 <= 3 and 0 <= t4 <= 3
    pre: 1 <= maxh <= 3
    post: _
    """
    # n records whose split tag takes one of three values (3 = record without the tag), at most maxh output files open at a time:
    # the command-line driver makes as many passes as needed
    vals = ['cellA', 'cellB', 'cellC']
    tags = [pick([0, 1, 2, 3], t) for t in [t0, t1, t2, t3, t4][:n]]
    reads = []
    for i, t in enumerate(tags):
        reads.append(FakeRead(query_name='r%d' % i, reference_name='chr1', reference_start=10 * i, cigartuples=[(0, 4)], seq='ACGT', qual='IIII',
                              tags=({'SM': vals[t]} if t < 3 else {})))
    ps = SplitPysam({'in.bam': reads})
    BSmod.pysam = ps
    a = _Args()
    a.bamfile, a.tag, a.head, a.max_handles = 'in.bam', 'SM', None, pick([1, 2, 3], maxh - 1)
    _split_driver(a, 'out/')
    exp = {}
    for i, t in enumerate(tags):
        if t < 3:
            exp.setdefault('out/%s.bam' % vals[t], []).append('r%d' % i)
    got = {p: [r.query_name for r in rs] for p, rs in ps.out.items()}
    if got != exp:
        return False
    if ps.open_now != 0 or ps.max_open > a.max_handles:
        return False
    return sorted(set(ps.indexed)) == sorted(exp)


def preflight():
    """MemFS vs real gzip: 'w' then 'a' then 'a' must concatenate; 'w' truncates."""
    import gzip, tempfile, os, shutil
    d = tempfile.mkdtemp(prefix='c19pf', dir=os.environ.get('VERIF_SCRATCH') or None)
    try:
        p = os.path.join(d, 'x.gz')
        for mode, s in (('wb', 'a'), ('ab', 'b'), ('ab', 'c')):
            with gzip.open(p, mode, 1) as h:
                h.write(s.encode())
        real = gzip.open(p, 'rt').read()
        fs = MemFS()
        for mode, s in (('wb', 'a'), ('ab', 'b'), ('ab', 'c')):
            h = fs.open('x', mode, 1); h.write(s.encode()); h.close()
        assert real == fs.content('x') == 'abc', (real, fs.content('x'))
        with gzip.open(p, 'wb', 1) as h:
            h.write(b'z')
        h = fs.open('x', 'wb', 1); h.write(b'z'); h.close()
        assert gzip.open(p, 'rt').read() == fs.content('x') == 'z'
        return dict(memfs_vs_gzip='ok')
    finally:
        shutil.rmtree(d, ignore_errors=True)


_T = {'quick': 150, 'thorough': 900}
LEMMAS = [
    dict(name='L1_emfile', fn='_l1_emfile', engine='E1', timeout=_T, replay='replay.C19:replay',
         cases={'quick': [dict(id='n%d' % n, pre=['n == %d' % n]) for n in (1, 2, 3)] + [dict(id='n4_k%d' % k, pre=['n == 4', 'k == %d' % k]) for k in (1, 2, 3)],
                'thorough': [dict(id='n%d_k%d' % (n, k), pre=['n == %d' % n, 'k == %d' % k]) for n in (1, 2, 3, 4, 5) for k in (1, 2, 3)]}),
    dict(name='L1_faults', fn='_l1_faults', engine='E1', timeout=_T, replay='replay.C19:replay',
         cases={'quick': [dict(id='n%d_%s' % (n, 'tr' if tr else 'perm'), pre=['n == %d' % n, 'transient == %s' % tr]) for n in (2, 3) for tr in (True, False)],
                'thorough': [dict(id='n%d_%s' % (n, 'tr' if tr else 'perm'), pre=['n == %d' % n, 'transient == %s' % tr]) for n in (1, 2, 3, 4) for tr in (True, False)]}),
    dict(name='L1c_writes_after_a_failed_open', fn='_l1c_after_failure', engine='E1', timeout=_T, replay='replay.C19:replay_after_failure',
         cases={'quick': [dict(id='n%d' % k, pre=['n == %d' % k] + ['w%d == 0' % i for i in range(k, 4)]) for k in (2, 3, 4)]}),
    dict(name='L3_bam_split_by_tag', fn='_l3_bam_split', engine='E1', timeout=_T, replay='replay.C19:replay_split',
         cases={'quick': [dict(id='n%d' % n, pre=['n == %d' % n] + ['t%d == 0' % i for i in range(n, 5)]) for n in (1, 2, 3)] + [dict(id='n4_h%d' % h, pre=['n == 4', 'maxh == %d' % h, 't4 == 0']) for h in (1, 2, 3)],
                'thorough': [dict(id='n%d_h%d' % (n, h), pre=['n == %d' % n, 'maxh == %d' % h] + ['t%d == 0' % i for i in range(n, 5)]) for n in (1, 2, 3, 4, 5) for h in (1, 2, 3)]}),
    dict(name='L2_fastqhandle_sc', fn='_l2_fastqhandle', engine='E1', timeout=_T, replay='replay.C19:replay_fh'),
]

PROPERTY = dict(
    functions=['singlecellmultiomics.pyutils.handlelimiter.HandleLimiter.write/prune/close',
               'singlecellmultiomics.fastqProcessing.fastqHandle.FastqHandle.__init__/write/close (single_cell=True)',
               'singlecellmultiomics.bamProcessing.bamSplitByTag.split_bam_by_tag + the multi-pass driver loop of its __main__ block (AST cut)'],
    bounds={'quick': dict(writes='<=4 over 3 paths', descriptor_limit_k='1..3', maxHandles='1..3', pruneEvery='1..3',
                          faults='EMFILE above k; one transient failure at open call 0..2 (also with the caller continuing after the error); one permanently failing path'),
            'thorough': dict(writes='<=5 over 3 paths', descriptor_limit_k='1..3 (faults: 2..4)', maxHandles='1..3', pruneEvery='1..3')},
    outside=['validity of concatenated gzip members (zlib; exercised by the replay on the real file system)',
             'bamSplitByTag: real BAM encoding / indexing (replay only), -head, tag values that need file-name cleaning', 'more than 3 distinct target files', 'HandleLimiter.write with method=None', 'errors raised by close()', 'pruneEvery not being configurable through FastqHandle'],
    assumptions=['MemFS contract: w truncates, a appends, each open handle holds one descriptor, open raises EMFILE when k descriptors are in use',
                 'an escaping exception is legitimate only if the failing open() happened while no other handle was open',
                 'time.time replaced by a strictly increasing counter'],
    trusted=['stubs/memfs.py', 'spec/c19.py'],
)
