"""C08 - parallel tagging equivalent to serial tagging. Python logic deciding it: tiling ownership of tasks
(region block of tag_multiome_multi_processing -> generate_tasks), the ownership filter / stop criterion of
run_tagging_task, completeness of the fetch window."""
from vlib import astcut, floatcut
from spec import tagging as S
import singlecellmultiomics.universalBamTagger.bamtagmultiome as BT
import singlecellmultiomics.bamProcessing.bamBinCounts as B
import singlecellmultiomics.universalBamTagger.tagging as TG

_CUTS = floatcut.install(B, ['blacklisted_binning'])
BT.blacklisted_binning_contigs.__globals__['blacklisted_binning'] = B.blacklisted_binning
_region_block_raw = astcut.cut_if(BT, 'tag_multiome_multi_processing', 'one_contig_per_process', 'orelse',
                                  params=('input_bam_path', 'bp_per_segment', 'fragment_size', 'bp_per_job', 'contig_whitelist', 'blacklist_path'),
                                  result='job_gen', name='_region_jobs')


def _tasks_block(contig_sizes, bin_size, F, bp_per_job, whitelist):
    """region block -> real generate_tasks -> back to (contig,start,end,fetch_start,fetch_end) per job"""
    job_gen = _region_block_raw(contig_sizes, bin_size, F, bp_per_job, whitelist, None)
    tasks = TG.generate_tasks(input_bam_path='in.bam', temp_folder='tmp', job_gen=job_gen, iteration_args={'molecule_iterator_class': None},
                              additional_args={'x': 1}, max_time_per_segment=None)
    out = []
    for (path, tmp, mt), arglist in tasks:
        assert path == 'in.bam' and tmp == 'tmp'
        out.append([(d['contig'], d['start'], d['end'], d['fetch_start'], d['fetch_end']) for d in arglist])
    return out


def _l1_ownership(L0: int, L1: int, b: int, bpj: int, F: int) -> bool:
    """
    pre: 1 <= L0 <= 5 and 1 <= L1 <= 3
    pre: 1 <= b <= 5
    pre: 1 <= bpj <= 7
    pre: 0 <= F
    post: _
    """
    return S.check_region_jobs(_tasks_block, [('c0', L0), ('c1', L1)], b, bpj, F, None) is None


def _l2_filter(n: int, c0: int, c1: int, c2: int, s0: int, s1: int, s2: int, start: int, end: int, fs: int, fe: int) -> bool:
    """
    pre: 0 <= n <= 3
    pre: -1 <= c0 <= 1 and -1 <= c1 <= 1 and -1 <= c2 <= 1
    pre: 0 <= fs <= start < end <= fe
    pre: s0 >= 0 and s1 >= 0 and s2 >= 0
    post: _
    """
    specs = [((None if c < 0 else c), s) for c, s in zip([c0, c1, c2], [s0, s1, s2])][:n]
    return S.check_tagging_task(TG.run_tagging_task, specs, (start, end, fs, fe)) is None


def _l4_fetch_complete(L: int, b: int, F: int, site: int, rs: int, re: int) -> bool:
    """
    pre: 1 <= L <= 6
    pre: 1 <= b <= 6
    pre: 0 <= F
    pre: 0 <= site < L
    pre: 0 <= rs < re <= L
    pre: site - F <= rs and re <= site + F
    post: _
    """
    return S.check_fetch_complete(B.blacklisted_binning, L, b, F, site, rs, re) is None


def _l4b_site_outside_contig(L: int, b: int, F: int, site: int, rs: int, re: int) -> bool:
    """
    pre: 1 <= L <= 6
    pre: 1 <= b <= 6
    pre: 2 <= F
    pre: (-2 <= site < 0) or (L <= site <= L + 1)
    pre: 0 <= rs < re <= L
    pre: site - F <= rs and re <= site + F
    post: _
    """
    # scCHIC cut sites lie 1-2 bases outside the read: for a read at the very start / end of a contig the site is -2, -1, L or L+1.
    # Such a molecule must still be written by exactly one job of the region tiling (the serial pass writes it).
    return S.check_fetch_complete(B.blacklisted_binning, L, b, F, site, rs, re) is None


def _l0_contigs_with_reads(n: int, m0: int, u0: int, m1: int, u1: int, m2: int, u2: int, su: int, with_length: bool) -> bool:
    """
    pre: 0 <= n <= 3
    pre: 0 <= m0 <= 2 and 0 <= u0 <= 2 and 0 <= m1 <= 2 and 0 <= u1 <= 2 and 0 <= m2 <= 2 and 0 <= u2 <= 2
    pre: 0 <= su <= 2
    post: _
    """
    # both parallel modes build their job list from get_contigs_with_reads: a contig that holds only unmapped, placed records must
    # get a job as well (the serial pass writes those records)
    return S.check_contigs_with_reads(n, [m0, m1, m2], [u0, u1, u2], su, with_length) is None


def _l3_break(sa: int, ra: bool, sb: int, rb: bool, Fi: int, ci: int, same_cell: bool) -> bool:
    """
    pre: 0 <= sa <= 7 and 0 <= sb <= 5
    pre: 0 <= Fi <= 2 and 0 <= ci <= 2
    post: _
    """
    # Region [900, 1000) with fetch margin F >= read length (16). Molecule A is owned (site in the last 24 bp of the bin), molecule B has its
    # site at or beyond fetch_end but still overlaps the fetch window; reads arrive in coordinate order through the REAL MoleculeIterator and
    # the REAL run_tagging_task: A must be written whatever strands / clips / cells (an early stop at B loses A when B's read starts first).
    from vlib.sym import pick
    from spec import c06 as S6
    from stubs.fakeread import FakeRead
    from singlecellmultiomics.molecule import MoleculeIterator, NlaIIIMolecule
    from singlecellmultiomics.fragment import NlaIIIFragment
    start, end = 900, 1000
    F = pick([16, 20, 40], Fi)
    fetch_start, fetch_end = start - F, end + F
    site_a = pick([976, 980, 984, 988, 992, 996, 998, 999], sa)
    site_b = fetch_end + pick([0, 1, 2, 5, 9, 30], sb)
    clip = pick([0, 1, 6], ci)
    from spec.c09 import nla_reads
    reads = []
    for name, site, rev, cell, umi in (('A', site_a, ra, 'lib_1', 'AAA'), ('B', site_b, rb, ('lib_1' if same_cell else 'lib_2'), 'CCC')):
        r, _ = nla_reads(FakeRead, site, clip, rev, 'CATG')
        r.query_name = name
        r.set_tag('SM', cell)
        r.set_tag('RX', umi)
        reads.append(r)
    # what a fetch of [fetch_start, fetch_end) returns, in coordinate order
    fetched = sorted([r for r in reads if r.reference_start < fetch_end and r.reference_end > fetch_start], key=lambda r: r.reference_start)

    class It(MoleculeIterator):
        def __init__(self, alignments, contig=None, start=None, end=None, progress_callback_function=None, **kw):
            MoleculeIterator.__init__(self, [[r, None] for r in alignments], molecule_class=NlaIIIMolecule, fragment_class=NlaIIIFragment,
                                      fragment_class_args={'umi_hamming_distance': 0}, perform_qflag=False, yield_invalid=True, **kw)
    written = []

    class Out:
        def write(self, read):
            written.append(read.query_name)
    TG.run_tagging_task(fetched, Out(), contig='chr1', start=start, end=end, fetch_start=fetch_start, fetch_end=fetch_end,
                        molecule_iterator_class=It, molecule_iterator_args={}, read_groups=None, enable_prefetch=False)
    return written == ['A']


def _l5_job(n: int, c0: int, c1: int, c2: int, v0: bool, v1: bool, v2: bool, v3: bool) -> bool:
    """
    pre: 1 <= n <= 3
    pre: 0 <= c0 <= 2 and 0 <= c1 <= 2 and 0 <= c2 <= 2
    pre: c0 + c1 + c2 <= 4
    post: _
    """
    return S.check_tagging_job(TG, [c0, c1, c2][:n], [v0, v1, v2, v3]) is None


_T = {'quick': 150, 'thorough': 900}
LEMMAS = [
    dict(name='L1_tiling_ownership', fn='_l1_ownership', engine='E1', timeout=_T, replay='replay.C08:replay',
         cases={'quick': [dict(id='L%d' % L, pre=['L0 == %d' % L, 'L1 <= 2']) for L in (1, 2, 3, 4)],
                'thorough': [dict(id='L%d_%d' % (L, M), pre=['L0 == %d' % L, 'L1 == %d' % M]) for L in (1, 2, 3, 4, 5) for M in (1, 2, 3)]}),
    dict(name='L2_ownership_filter', fn='_l2_filter', engine='E1', timeout=_T, replay='replay.C08:replay',
         cases={'quick': [dict(id='n%d' % n, pre=['n == %d' % n]) for n in (0, 1, 2, 3)]}),
    dict(name='L3_break_criterion', fn='_l3_break', engine='E1', timeout=_T, replay='replay.C08:replay_break',
         cases={'quick': [dict(id='F%d_c%d' % (f, c), pre=['Fi == %d' % f, 'ci == %d' % c]) for f in range(3) for c in range(3)]}),
    dict(name='L0_contigs_with_reads', fn='_l0_contigs_with_reads', engine='E1', timeout=_T, replay='replay.C05:replay',
         cases={'quick': [dict(id='n%d' % k, pre=['n == %d' % k] + ['m%d == 0' % i for i in range(k, 3)] + ['u%d == 0' % i for i in range(k, 3)]) for k in (0, 1, 2)] +
                         [dict(id='n3_m%d_%s' % (m, 'len' if w else 'name'), pre=['n == 3', 'm0 == %d' % m, 'with_length == %s' % bool(w)]) for m in (0, 1, 2) for w in (0, 1)]}),
    dict(name='L4b_site_outside_contig', fn='_l4b_site_outside_contig', engine='E1', timeout=_T, replay='replay.C08:replay'),
    dict(name='L4_fetch_complete', fn='_l4_fetch_complete', engine='E1', timeout=_T, replay='replay.C08:replay',
         cases={'quick': [dict(id='L%d' % L, pre=['L == %d' % L]) for L in (1, 2, 3, 4, 5)],
                'thorough': [dict(id='L%d' % L, pre=['L == %d' % L]) for L in (1, 2, 3, 4, 5, 6)]}),
    dict(name='L5_job_bookkeeping', fn='_l5_job', engine='E1', timeout=_T, replay='replay.C08:replay'),
]

PROPERTY = dict(
    functions=['bamFunctions.get_contigs_with_reads (the contig list both parallel modes start from)', 'bamtagmultiome.tag_multiome_multi_processing region branch (AST cut)', 'tagging.generate_tasks', 'tagging.run_tagging_task', 'tagging.run_tagging_tasks (job bookkeeping: a job that wrote records keeps its output)',
               'bamBinCounts.blacklisted_binning_contigs/blacklisted_binning', 'utils.binning.bp_chunked'],
    bounds={'quick': dict(tiling='2 contigs of length <=4 / <=2, bin <=5, bp_per_job <=7, fragment size unbounded',
                          filter='<=3 molecules in arbitrary iteration order, unbounded sites and windows, molecules without site, 2 contigs',
                          fetch='contig <=5, bin <=6, fragment size / site / read interval symbolic'),
            'thorough': dict(tiling='lengths <=5 / <=3', fetch='contig <=6')},
    outside=['worker scheduling (results are a multiset union; order-insensitive)', 'htslib merge', 'MatePairIterator ordering of paired-end reads (the break criterion is checked for single-end reads no longer than the fetch margin)',
             'molecule-level tag equality between serial and parallel run beyond ownership+completeness (argued on paper: the owning job sees every read of the molecule)'],
    assumptions=['stub molecule/iterator classes passed through the public run_tagging_task API', 'float cut: %r' % (_CUTS,),
                 'fragment lies within fragment_size of its site (documented meaning of the margin)'],
    trusted=['spec/tagging.py', 'vlib/astcut.py', 'vlib/floatcut.py'],
)
