"""C01 - demultiplexing conserves every read pair. Real code: DemultiplexingStrategyLoader.demultiplex (the loop), every strategy's
demultiplex, IlluminaBaseDemultiplexer.demultiplex (reject path), TaggedRecord.asFastq, FastqHandle.write/close, FastqIterator."""
import io, contextlib, types, inspect, textwrap
import singlecellmultiomics.modularDemultiplexer.baseDemultiplexMethods as BDM
import singlecellmultiomics.modularDemultiplexer.demultiplexingStrategyLoader as DSL
import singlecellmultiomics.fastqProcessing.fastqHandle as FH
import singlecellmultiomics.fastqProcessing.fastqIterator as FI
from stubs.stubparser import StubBarcodeParser
from stubs.memfs import MemFS
from spec import c01 as S
from spec.layouts import LAYOUTS
from vlib.sym import pick


def _relax(mod, clsname, names):
    cls = getattr(mod, clsname)
    for n in names:
        fn = getattr(cls, n)
        fn = getattr(fn, '__relaxed_orig__', fn)
        src = textwrap.dedent(inspect.getsource(fn)).replace('except BaseException', 'except Exception')
        loc = {}
        exec(compile(src, '<relaxed:%s>' % n, 'exec'), fn.__globals__, loc)
        loc[n].__relaxed_orig__ = fn
        setattr(cls, n, loc[n])


_relax(BDM, 'TaggedRecord', ['_parse_illumina_header', 'fromRawFastq'])


class PairParser(StubBarcodeParser):
    """verdicts depend on the pair currently being processed: schedule[i] = (bc_ok, idx_ok, base_idx_ok)"""
    BASE_ALIAS = 'illumina_merged_ThruPlex48S_RP'

    def __init__(self):
        StubBarcodeParser.__init__(self)
        self.schedule, self.current = [], 0

    def getIndexCorrectedBarcodeAndHammingDistance(self, barcode, alias, try_lazy_load_pending=True):
        bc_ok, idx_ok, base_ok = self.schedule[self.current]
        if alias == self.index_alias:
            return (1, barcode, 0) if idx_ok else (None, None, None)
        if alias == self.BASE_ALIAS:
            return (1, barcode, 0) if base_ok else (None, None, None)
        return (self.index, barcode, 0) if bc_ok else (None, None, None)


PARSER = PairParser()
with contextlib.redirect_stdout(io.StringIO()):
    LOADER = DSL.DemultiplexingStrategyLoader(PARSER, indexParser=PARSER, indexFileAlias='idx')
STRATS = {s.shortName: s for s in LOADER.demultiplexingStrategies}
NAMES = sorted(STRATS)


def _run(name, nm, rejects, max_pairs, hdr_style, specs):
    """specs: list of (content idx, bc_ok, idx_ok, base_ok) per pair"""
    strat = STRATS[name]
    pairs = [S.make_pair(i, hdr_style, sp[0], nm) for i, sp in enumerate(specs)]
    PARSER.schedule = [(sp[1], sp[2], sp[3]) for sp in specs]
    PARSER.current = 0
    fs = MemFS()
    FH.gzip = fs

    class MemIter:
        def __init__(self, *paths):
            self.i = 0

        def __iter__(self):
            return self

        def __next__(self):
            if self.i >= len(pairs):
                raise StopIteration
            PARSER.current = self.i
            self.i += 1
            return pairs[self.i - 1]
    DSL.fastqIterator = types.SimpleNamespace(FastqIterator=MemIter, FastqRecord=FI.FastqRecord)
    target = FH.FastqHandle('demux.', pairedEnd=(nm == 2))
    rej = FH.FastqHandle('rej.', pairedEnd=(nm == 2)) if rejects else None
    with contextlib.redirect_stdout(io.StringIO()):
        result = LOADER.demultiplex(['R1.fq', 'R2.fq'][:nm], maxReadPairs=max_pairs, strategies=[strat], library='LIB',
                                    targetFile=target, rejectHandle=rej)
    target.close()
    if rej is not None:
        rej.close()
    sinks = {'demux.R1': fs.content('demux.R1.fastq.gz'), 'demux.R2': fs.content('demux.R2.fastq.gz'),
             'rej.R1': fs.content('rej.R1.fastq.gz'), 'rej.R2': fs.content('rej.R2.fastq.gz')}
    L = LAYOUTS[name]
    predicted = None
    if not L.get('content'):
        predicted = []
        for (ci, bc_ok, idx_ok, base_ok) in specs:
            # already-demultiplexed headers carry their index; the strategy does not look it up again
            idx = base_ok if name == 'RBSN' else idx_ok   # RBSN resolves the sequencing index through its own base demultiplexer (default alias)
            ok = (nm in L['mates']) and (idx or hdr_style == 2) and (bc_ok or L.get('bulk'))
            predicted.append('demux' if ok else 'rej')
    return S.accounting_clause(result, sinks, pairs, nm, rejects, max_pairs, name, predicted)


def _l1_accounting(si: int, nm: int, rejects: bool, c0: int, b0: bool, i0: bool, g0: bool, n: int, b1: bool, i1: bool) -> bool:
    """
    pre: 0 <= si < 29
    pre: 1 <= nm <= 2
    pre: 0 <= c0 <= 5
    pre: 1 <= n <= 2
    post: _
    """
    name = pick(NAMES, si)
    specs = [(c0, b0, i0, g0), (0, b1, i1, True)][:n]
    return _run(name, nm, rejects, None, 0, specs) is None


def _l1_headers(si: int, nm: int, rejects: bool, hdr: int, mrp: int, ok: bool) -> bool:
    """
    pre: 0 <= si < 29
    pre: 1 <= nm <= 2
    pre: 0 <= hdr <= 2
    pre: 0 <= mrp <= 3
    post: _
    """
    name = pick(NAMES, si)
    specs = [(0, ok, ok, True), (0, True, True, True), (0, ok, True, True)]
    return _run(name, nm, rejects, (None if mrp == 0 else mrp), hdr, specs) is None


def _l1_per_cell(stale: bool, b0: bool, i0: bool, b1: bool, i1: bool, maxh: int, prune: int) -> bool:
    """
    pre: 1 <= maxh <= 3
    pre: 0 <= prune <= 2
    post: _
    """
    # one file per cell (--scsepf): real FastqHandle(single_cell=True) + real HandleLimiter over the in-memory file system
    import singlecellmultiomics.pyutils.handlelimiter as HL
    name, nm = 'NLAIII384C8U3', 2
    strat = STRATS[name]
    specs = [(0, b0, i0, True), (0, b1, i1, True)]
    pairs = [S.make_pair(i, 0, sp[0], nm) for i, sp in enumerate(specs)]
    PARSER.schedule = [(sp[1], sp[2], sp[3]) for sp in specs]
    PARSER.current = 0
    fs = MemFS()
    FH.gzip = fs
    HL.gzip, HL.open, HL.time = fs, fs.builtin_open, fs
    cellfile = 'demux.%s.%s.%s.fastq.gz' % (PARSER.index, name, '%s')
    if stale:
        fs.files[cellfile % 'R1'] = ['@old 17099/1\nT\n+\nI\n']
        fs.files[cellfile % 'R2'] = ['@old 17099/2\nT\n+\nI\n']

    class MemIter:
        def __init__(self, *paths):
            self.i = 0

        def __iter__(self):
            return self

        def __next__(self):
            if self.i >= len(pairs):
                raise StopIteration
            PARSER.current = self.i
            self.i += 1
            return pairs[self.i - 1]
    DSL.fastqIterator = types.SimpleNamespace(FastqIterator=MemIter, FastqRecord=FI.FastqRecord)
    target = FH.FastqHandle('demux', pairedEnd=True, single_cell=True, maxHandles=maxh)
    if prune > 0:
        # the limiter closes the least recently written handles every `prune` writes (default 10000): a cell file that was
        # closed in between must be re-opened for appending
        target.handles.pruneEvery = prune
    with contextlib.redirect_stdout(io.StringIO()):
        processed, yields = LOADER.demultiplex(['R1.fq', 'R2.fq'], strategies=[strat], library='LIB', targetFile=target, rejectHandle=None)
    target.close()
    accepted = [17000 + i for i, sp in enumerate(specs) if sp[1] and sp[2]]
    if not accepted:
        # no record for this cell in this run: a file of an earlier run is simply not touched
        return fs.open_count == 0 and yields.get(name, 0) == 0
    try:
        r1 = S.parse_sink(fs.content(cellfile % 'R1'))
        r2 = S.parse_sink(fs.content(cellfile % 'R2'))
    except ValueError:
        return False
    if [S.cy_of(x[0]) for x in r1] != accepted or [S.cy_of(x[0]) for x in r2] != accepted:
        return False
    if any('old' in x[0] for x in r1 + r2):
        return False
    return fs.open_count == 0 and yields.get(name, 0) == len(accepted)


def _l2_reader(n1: int, n2: int, blank_at: int) -> bool:
    """
    pre: 0 <= n1 <= 9
    pre: 0 <= n2 <= 9
    pre: -1 <= blank_at <= 8
    post: _
    """
    # real FastqIterator over two in-memory text files with n1 / n2 lines (line k of file f = 'f<k>'); optionally one empty line
    lines = [['@a%d' % k if k % 4 == 0 else 'x%d' % k for k in range(n1)], ['@b%d' % k if k % 4 == 0 else 'y%d' % k for k in range(n2)]]
    if 0 <= blank_at < n1:
        lines[0][blank_at] = ''

    class H:
        def __init__(self, ls):
            self.ls, self.i = ls, 0

        def readline(self):
            if self.i >= len(self.ls):
                return ''
            self.i += 1
            return self.ls[self.i - 1] + '\n'
    it = FI.FastqIterator.__new__(FI.FastqIterator)
    it.handles = (H(lines[0]), H(lines[1]))
    it.readIndex = 0
    got = list(it)
    # expected: complete records of both files up to the first record whose header line is empty / missing
    exp = []
    k = 0
    while True:
        recs = []
        for f in (0, 1):
            ls = lines[f][4 * k:4 * k + 4]
            ls = ls + [''] * (4 - len(ls))
            recs.append(FI.FastqRecord(*ls))
        if any(len(r.header) == 0 for r in recs):
            break
        exp.append(tuple(recs))
        k += 1
    return got == exp


_T = {'quick': 150, 'thorough': 600}
LEMMAS = [
    dict(name='L1_accounting', fn='_l1_accounting', engine='E1', timeout=_T, reach_timeout=30, replay='replay.C01:replay',
         cases={'quick': [dict(id=n, pre=['si == %d' % i]) for i, n in enumerate(NAMES)]}),
    dict(name='L1_headers_maxpairs', fn='_l1_headers', engine='E1', timeout=_T, reach_timeout=30, replay='replay.C01:replay',
         cases={'quick': [dict(id=n, pre=['si == %d' % i]) for i, n in enumerate(NAMES)]}),
    dict(name='L1_per_cell_output', fn='_l1_per_cell', engine='E1', timeout=_T, replay='replay.C01:replay_per_cell'),
    dict(name='L2_lockstep_reader', fn='_l2_reader', engine='E1', timeout=_T, replay='replay.C01:replay_reader'),
]

PROPERTY = dict(
    functions=['demultiplexingStrategyLoader.DemultiplexingStrategyLoader.demultiplex (loop, reject path, fallback reject writer, counters)',
               'every registered strategy demultiplex (%d)' % len(NAMES), 'IlluminaBaseDemultiplexer.demultiplex', 'TaggedRecord.asFastq',
               'fastqHandle.FastqHandle.__init__/write/close', 'fastqIterator.FastqIterator.__next__/_readFastqRecord'],
    bounds=dict(pairs='1..2 pairs (3 in the header/maxReadPairs lemma)', content='first pair from a pool of 6 (full length, shorter than the prefix, empty, N-rich, full mate 1 with empty mate 2, full mate 1 with primer-length mate 2)',
                verdicts='barcode / sequencing-index / base-demultiplexer-index verdicts symbolic per pair', modes='paired and single end, rejects on/off, one-file-per-cell output incl. stale files of an earlier run, 3 header styles, maxReadPairs None/1..3',
                strategies='each of the %d registered strategies' % len(NAMES)),
    outside=['gzip itself', 'library auto-detection (detectLibYields)', 'cluster submission branch of demux.py', 'headers longer than 255 characters (C04-L3)',
             'several strategies selected at once', 'maxReadPairs = 0', 'symbolic read content (pools are used; C02 covers symbolic sequences per strategy)', 'headers that are neither Illumina, short (7-field) nor already demultiplexed (the loader aborts)'],
    assumptions=['barcode parser replaced by a stub whose verdict per pair is symbolic (C03 owns the real parser)',
                 'for fixed-layout strategies the predicted sink is: demultiplexed iff mate count allowed and barcode + index verdicts accept'],
    trusted=['stubs/memfs.py', 'stubs/stubparser.py', 'spec/c01.py', 'spec/layouts.py (allowed mate counts)'],
)
