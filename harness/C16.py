"""C16 - feature lookups return exactly the overlapping features after any add history.
Real code: FeatureContainer.addFeature/sort/_findFeaturesAt/findFeaturesAt/findFeaturesBetween/findFeaturesAtPysamAlign.
numpy inside features.py is replaced by stubs/npshim.py so that coordinates stay symbolic."""
import importlib
from stubs import npshim
from stubs.fakeread import FakeRead
from spec import c16 as S
from vlib.sym import pick
F = importlib.import_module('singlecellmultiomics.features.features')
F.np = npshim
OPT = ['bdbnb', 'nb', 'optim', 'fallback']


def preflight():
    import numpy, random
    rnd = random.Random(1)
    for _ in range(2000):
        a = sorted(rnd.randint(-5, 12) for _ in range(rnd.randint(0, 6)))
        v = rnd.randint(-7, 14)
        for side in ('left', 'right'):
            assert npshim.searchsorted(a, v, side) == int(numpy.searchsorted(numpy.array(a, dtype=numpy.int64), v, side)), (a, v, side)
        b = [rnd.randint(0, 9) for _ in range(rnd.randint(1, 6))]
        assert list(npshim.argsort(b)) == [int(x) for x in numpy.argsort(numpy.array(b), kind='stable')], b
        assert npshim.max(b) == int(numpy.max(b))
    from stubs.validate import validate_fakeread
    out_ = dict(npshim_vs_numpy='searchsorted/argsort/max identical on 2000 random small arrays (argsort compared with kind=stable)')
    out_.update(validate_fakeread(300))
    return out_


def _mk(n, coords, strands):
    feats = []
    for i in range(n):
        s, l = coords[i]
        feats.append((s, s + l, 'f%d' % i, pick(S.STRANDS, strands[i]), None))
    return feats


def _container(feats):
    fc = F.FeatureContainer()
    for f in feats:
        fc.addFeature('chr1', f[0], f[1], f[2], strand=f[3], data=f[4])
    return fc


def _l1_point(n: int, s0: int, l0: int, s1: int, l1: int, s2: int, l2: int, st0: int, st1: int, st2: int, x: int, qs: int, opt: int) -> bool:
    """
    pre: 1 <= n <= 3
    pre: 0 <= l0 <= 1099511627776 and 0 <= l1 <= 1099511627776 and 0 <= l2 <= 1099511627776
    pre: 0 <= s0 <= 1099511627776 and 0 <= s1 <= 1099511627776 and 0 <= s2 <= 1099511627776 and -1099511627776 <= x <= 4 * 1099511627776
    pre: 0 <= st0 <= 2 and 0 <= st1 <= 2 and 0 <= st2 <= 2 and 0 <= qs <= 2
    pre: 0 <= opt <= 3
    post: _
    """
    feats = _mk(n, [(s0, l0), (s1, l1), (s2, l2)], [st0, st1, st2])
    fc = _container(feats)
    q = pick(S.STRANDS, qs)
    got = fc._findFeaturesAt('chr1', x, strand=q, optim=pick(OPT, opt))
    if S.names(got) != S.at(feats, x, q):
        return False
    # unknown contig answers nothing
    return fc._findFeaturesAt('chrZ', x, strand=q, optim=pick(OPT, opt)) == []


def _l2_range(n: int, s0: int, l0: int, s1: int, l1: int, st0: int, st1: int, a: int, w: int, qs: int) -> bool:
    """
    pre: 1 <= n <= 2
    pre: 0 <= l0 <= 1099511627776 and 0 <= l1 <= 1099511627776
    pre: 0 <= s0 <= 1099511627776 and 0 <= s1 <= 1099511627776 and -1099511627776 <= a <= 4 * 1099511627776
    pre: 0 <= st0 <= 2 and 0 <= st1 <= 2 and 0 <= qs <= 2
    pre: 0 <= w <= 1099511627776
    post: _
    """
    feats = _mk(n, [(s0, l0), (s1, l1)], [st0, st1])
    fc = _container(feats)
    fc.sort()
    q = pick(S.STRANDS, qs)
    got = fc.findFeaturesBetween('chr1', a, a + w, strand=q)
    return S.names(got) == S.between(feats, a, a + w, q)


def _l2_read(n: int, s0: int, l0: int, s1: int, l1: int, st0: int, st1: int, r: int, b1: int, gap: int, b2: int, method: int, qs: int) -> bool:
    """
    pre: 1 <= n <= 2
    pre: 0 <= l0 <= 1099511627776 and 0 <= l1 <= 1099511627776
    pre: 0 <= s0 <= 1099511627776 and 0 <= s1 <= 1099511627776
    pre: 0 <= st0 <= 2 and 0 <= st1 <= 2 and 0 <= qs <= 2
    pre: 1 <= b1 <= 2 and 0 <= gap <= 2 and 1 <= b2 <= 2
    pre: 0 <= method <= 1
    pre: 0 <= r <= 1099511627776
    post: _
    """
    feats = _mk(n, [(s0, l0), (s1, l1)], [st0, st1])
    fc = _container(feats)
    fc.sort()
    q = pick(S.STRANDS, qs)
    cig = [(0, b1)] + ([(3, gap), (0, b2)] if gap > 0 else [])
    read = FakeRead(reference_name='chr1', reference_start=r, cigartuples=cig, seq='A' * 4, qual='I' * 4)
    got = fc.findFeaturesAtPysamAlign(read, strand=q, method=method)
    blocks = read.get_blocks()
    exp = set()
    for (bs, be) in blocks:
        if method == 0:
            for pos in range(bs, be):
                exp.update(S.at(feats, pos, q))
        else:
            exp.update(S.between(feats, bs, be - 1, q))   # method 1: one range query per aligned block [bs, be) = closed interval [bs, be-1]
    return sorted(set(S.names(got))) == sorted(exp)


def _l2b_molecule_annotation(n: int, s0: int, l0: int, s1: int, l1: int, st0: int, st1: int, b1: int, gap: int, b2: int, rev: bool,
                             stranded: int, method: int) -> bool:
    """
    pre: 1 <= n <= 2
    pre: 0 <= s0 <= 8 and 0 <= s1 <= 8
    pre: 0 <= l0 <= 3 and 0 <= l1 <= 3
    pre: 0 <= st0 <= 2 and 0 <= st1 <= 2
    pre: 1 <= b1 <= 2 and 0 <= gap <= 2 and 1 <= b2 <= 2
    pre: 0 <= stranded <= 2
    pre: 0 <= method <= 1
    post: _
    """
    # FeatureAnnotatedMolecule.annotate: one (optionally spliced) read at 10.., features with start 6..14 and length 0,1,3,6 (pools: the
    # molecule stores hits in sets, which makes symbolic coordinates concrete anyway);
    # stranded: None = any strand, False = the strand of read 1, True = the opposite strand
    from singlecellmultiomics.molecule.featureannotatedmolecule import FeatureAnnotatedMolecule
    from singlecellmultiomics.fragment import Fragment
    rev = True if rev else False          # concrete per path (the strand ends up inside a string index)
    SP, LP = list(range(6, 15)), [0, 1, 3, 6]
    feats = [(f[0], f[1], f[2], f[3], f[2]) for f in _mk(n, [(pick(SP, s0), pick(LP, l0)), (pick(SP, s1), pick(LP, l1))], [st0, st1])]     # data = name: hits are keyed by it
    fc = _container(feats)
    fc.sort()
    b1c, gapc, b2c = pick([1, 2], b1 - 1), pick([0, 1, 2], gap), pick([1, 2], b2 - 1)
    cig = [(0, b1c)] + ([(3, gapc), (0, b2c)] if gapc > 0 else [])
    read = FakeRead(query_name='q', reference_name='chr1', reference_start=10, cigartuples=cig, seq='A' * 4, qual='I' * 4, is_reverse=rev,
                    is_read1=True, tags={'SM': 'lib_1', 'RX': 'ACG'})
    mode = pick([None, False, True], stranded)
    m = FeatureAnnotatedMolecule(Fragment([read, None], umi_hamming_distance=0), features=fc, stranded=mode)
    m.annotate(method)
    q = None if mode is None else ('-' if (bool(rev) != mode) else '+')
    exp = set()
    for (bs, be) in read.get_blocks():
        if method == 0:
            exp.update(S.between(feats, bs, be - 1, q))     # aligned blocks are queried as closed intervals
        else:
            for pos in range(bs, be):
                exp.update(S.at(feats, pos, q))
    return sorted(m.hits.keys()) == sorted(exp)


POOL = [0, 3, 5, 8, 10]


def _history(fc_feats, phases, queries, explicit_sort, early_query=False, other_first=False, range_first=False):
    """add / (sort) / query, phase by phase, with the real memo; returns False on the first stale answer"""
    F.FeatureContainer.findFeaturesAt.cache_clear()
    fc = F.FeatureContainer()
    feats = []
    if early_query:     # the contig is asked about before it has any feature
        for q in queries:
            if fc.findFeaturesAt('chr1', pick(POOL, q)) != []:
                return False
    for i, (a, b) in enumerate(phases):
        f = (pick(POOL, a), pick(POOL, b), 'f%d' % i, '+', None)
        feats.append(f)
        if other_first:  # a batch of additions that starts on another contig
            fc.addFeature('chr2', 1, 2, 'g%d' % i, strand='+', data=None)
        fc.addFeature('chr1', f[0], f[1], f[2], strand='+', data=None)
        if explicit_sort:
            fc.sort()
        if range_first:      # a range query directly after the additions (no point query in between that would re-index)
            for q in queries:
                x = pick(POOL, q)
                if S.names(fc.findFeaturesBetween('chr1', x, x + 2)) != S.between(feats, x, x + 2, None):
                    return False
        for q in queries:
            x = pick(POOL, q)
            if S.names(fc.findFeaturesAt('chr1', x)) != S.at(feats, x, None):
                return False
        if i == len(phases) - 1:
            for q in queries:
                x = pick(POOL, q)
                if S.names(fc.findFeaturesBetween('chr1', x, x + 2)) != S.between(feats, x, x + 2, None):
                    return False
    return True


def _l3_history2(a0: int, b0: int, a1: int, b1: int, q0: int, q1: int, explicit_sort: bool, early_query: bool, other_first: bool, range_first: bool) -> bool:
    """
    pre: 0 <= a0 <= b0 <= 3 and 0 <= a1 <= b1 <= 3
    pre: 0 <= q0 <= 3 and 0 <= q1 <= 3
    post: _
    """
    return _history(None, [(a0, b0), (a1, b1)], (q0, q1), explicit_sort, early_query, other_first, range_first)


def _l3_history(a0: int, b0: int, a1: int, b1: int, a2: int, b2: int, q0: int, q1: int, explicit_sort: bool) -> bool:
    """
    pre: 0 <= a0 <= b0 <= 4 and 0 <= a1 <= b1 <= 4 and 0 <= a2 <= b2 <= 4
    pre: 0 <= q0 <= 4 and 0 <= q1 <= 4
    post: _
    """
    return _history(None, [(a0, b0), (a1, b1), (a2, b2)], (q0, q1), explicit_sort)


_T = {'quick': 200, 'thorough': 1200}
LEMMAS = [
    dict(name='L1_point_query', fn='_l1_point', engine='E1', timeout=_T, replay='replay.C16:replay',
         cases={'quick': [dict(id='n1', pre=['n == 1', 's1 == 0', 'l1 == 0', 's2 == 0', 'l2 == 0', 'st1 == 0', 'st2 == 0'])] +
                         [dict(id='n2_%s_st%d' % (OPT[o], st), pre=['n == 2', 's2 == 0', 'l2 == 0', 'st2 == 0', 'opt == %d' % o, 'st0 == %d' % st]) for o in range(4) for st in range(3)],
                'thorough': [dict(id='n2_%s_st%d' % (OPT[o], st), pre=['n == 2', 's2 == 0', 'l2 == 0', 'st2 == 0', 'opt == %d' % o, 'st0 == %d' % st]) for o in range(4) for st in range(3)] +
                            [dict(id='n3_%s_q%d_%s' % (OPT[o], qs, rel), pre=['n == 3', 'opt == %d' % o, 'qs == %d' % qs, 'st0 == 0', 'st1 <= 1', 'st2 <= 1', rel_pre])
                             for o in range(4) for qs in (0, 2) for rel, rel_pre in (('a', 's0 <= s1 <= s2'), ('b', 's0 <= s2 < s1'), ('c', 's1 < s0 <= s2'))]}),
    dict(name='L2_range_query', fn='_l2_range', engine='E1', timeout=_T, replay='replay.C16:replay',
         cases={'quick': [dict(id='n1_q%d' % qs, pre=['n == 1', 'qs == %d' % qs, 's1 == 0', 'l1 == 0', 'st1 == 0']) for qs in (0, 1, 2)] +
                         [dict(id='n2_%s' % nm, pre=['n == 2'] + pre) for nm, pre in (
                             ('unstranded_a', ['qs == 2', 'st0 == 0', 'st1 == 0', 's0 <= s1']), ('unstranded_b', ['qs == 2', 'st0 == 0', 'st1 == 0', 's1 < s0']),
                             ('stranded_a', ['qs == 0', 'st0 == 0', 'st1 == 1', 's0 <= s1']), ('stranded_b', ['qs == 0', 'st0 == 1', 'st1 == 0', 's0 <= s1']),
                             ('stranded_c', ['qs == 1', 'st0 == 2', 'st1 == 1', 's1 < s0']))]}),
    dict(name='L2_read_annotation', fn='_l2_read', engine='E1', timeout=_T, replay='replay.C16:replay',
         cases={'quick': [dict(id='m%d_g0' % m, pre=['n == 2', 'method == %d' % m, 'gap == 0', 'qs == 2', 'st0 == 0', 'st1 == 1']) for m in (0, 1)] +
                         [dict(id='m%d_g%d_b%d' % (m, g, b), pre=['n == 2', 'method == %d' % m, 'gap == %d' % g, 'b1 == %d' % b, 'b2 == 1', 'qs == 2', 'st0 == 0', 'st1 == 1', 's0 <= s1']) for m in (0, 1) for g in (1, 2) for b in (1, 2)]}),
    dict(name='L2b_molecule_annotation', fn='_l2b_molecule_annotation', engine='E1', timeout=_T, replay='replay.C16:replay',
         cases={'quick': [dict(id='n1_%s_m%d_%s' % (['any', 'same', 'opposite'][sd], me, 'rev' if rv else 'fwd'), pre=['n == 1', 'stranded == %d' % sd, 'method == %d' % me, 'rev == %s' % bool(rv), 's1 == 0', 'l1 == 0', 'st1 == 0', 'b2 == 1'])
                          for sd in (0, 1, 2) for me in (0, 1) for rv in (0, 1)] +
                         [dict(id='n2_%s_m%d_%s' % (['any', 'same', 'opposite'][sd], me, 'rev' if rv else 'fwd'), pre=['n == 2', 'stranded == %d' % sd, 'method == %d' % me, 'rev == %s' % bool(rv), 'st0 == 0', 'st1 == 1', 'b1 == 2', 'gap == 0', 'b2 == 1', '1 <= l0 <= 2', 'l1 == 1', 's0 <= 5'])
                          for sd in (0, 1, 2) for me in (0, 1) for rv in (0, 1)]}),
    dict(name='L3_history2_real_cache', fn='_l3_history2', engine='E1', timeout=_T, replay='replay.C16:replay', real_lru_cache=True,
         cases={'quick': [dict(id='a0_%d_%s_%s' % (a, 'sort' if es else 'auto', 'early' if eq else 'late'), pre=['a0 == %d' % a, 'explicit_sort == %s' % es, 'early_query == %s' % eq, 'other_first == early_query', 'range_first == (not early_query)']) for a in range(4) for es in (True, False) for eq in (True, False)]}),
    dict(name='L3_history3_real_cache', fn='_l3_history', engine='E1', timeout=_T, replay='replay.C16:replay', real_lru_cache=True, tiers=['thorough'],
         cases={'thorough': [dict(id='a0_%d_b0_%d_q%d_%s' % (a, b_, q, 'sort' if es else 'auto'), pre=['a0 == %d' % a, 'b0 == %d' % b_, 'q0 == %d' % q, 'explicit_sort == %s' % es])
                             for a in range(5) for b_ in range(a, 5) for q in range(5) for es in (True, False)]}),
]

PROPERTY = dict(
    functions=['features.FeatureContainer.addFeature / sort / _findFeaturesAt (bdbnb, nb, optim, fallback) / findFeaturesAt (lru_cache) / findFeaturesBetween / findFeaturesAtPysamAlign',
               'molecule.featureannotatedmolecule.FeatureAnnotatedMolecule.__init__ / annotate (both methods, stranded None / False / True)'],
    bounds={'quick': dict(point='<=2 features with symbolic start and length in 0..2**40 (nested, identical, zero-length; far beyond any genome, inside the int64 / uint64 index arrays of the container), 3 strand values, symbolic query coordinate in -2**40..2**42, 4 lookup modes',
                          range='<=2 features, symbolic range start / width within the same 2**40 bounds', read='2 features, read with 1-2 aligned blocks of 1-2 bases, both methods', molecule='FeatureAnnotatedMolecule over one forward or reverse read (1-2 blocks) and 1-2 features with start 6..14, length 0/1/3/6, 3 strand values; stranded any / same / opposite; both methods',
                          history='add/(sort)/query x2 (thorough x3) with coordinates from the pool {0,3,5,8} (thorough +10) (they are cache keys), 2 query coordinates repeated in every phase, explicit re-index or automatic, REAL functools.lru_cache'),
            'thorough': dict(point='3 features split over the relative order of starts')},
    outside=['GTF/BED loading', 'several contigs (per-contig dictionaries)', 'more than 3 features', 'findNearestFeature', 'features that differ only in strand None vs +/-', 'negative feature coordinates', 'exact duplicate features'],
    assumptions=['numpy (searchsorted, fromiter, argsort, max) inside features.py replaced by stubs/npshim.py, validated against real numpy on every run',
                 'for L3 CrossHair\'s lru_cache bypass is removed so the real memo runs (coordinates concrete per path)'],
    trusted=['stubs/npshim.py', 'stubs/fakeread.py', 'spec/c16.py'],
)
