"""C12 - binned molecule counting is independent of how the genome is split into jobs.
Real code: bamBinCounts.generate_jobs / generate_commands / count_fragments_binned / read_counts, merge loop of obtain_counts (AST cut),
bamFunctions.get_contig_size / get_contig_sizes."""
from vlib import astcut, floatcut
from stubs.fakeread import FakeRead
from stubs.fakebam import FakePysamModule
from vlib.sym import pick
import singlecellmultiomics.bamProcessing.bamBinCounts as B
import singlecellmultiomics.bamProcessing.bamFunctions as BF

_CUTS = floatcut.install(B, ['count_fragments_binned'])
PYS = FakePysamModule()
B.pysam = PYS
BF.pysam = PYS
_merge = astcut.cut_for(B, 'obtain_counts', 'result.items()', params=('counts', 'result'), result='counts', name='_merge_block')


class _LazyVal:
    def __init__(self, eq):
        self.eq = eq

    def __eq__(self, o):
        return self.eq.get(o, False)

    def __ne__(self, o):
        return self.eq.get(o, False) == False   # noqa: E712


class LRead(FakeRead):
    """FakeRead whose mp / DS / SM tags are answered lazily from symbolic facts"""
    def has_tag(self, t):
        if t == 'mp':
            return self.mi != 0
        if t == 'DS':
            return self.ds_present
        if t == 'SM':
            return True
        if t == 'DA':
            return self.da_present
        return False

    def get_tag(self, t):
        if t == 'mp':
            if self.mi == 0:
                raise KeyError(t)
            return _LazyVal({'unique': self.mi == 1})
        if t == 'DS':
            if not self.ds_present:
                raise KeyError(t)
            return self.ds
        if t == 'SM':
            return 'cellA'
        if t == 'DA':
            return 'a1'
        raise KeyError(t)


def _count_all(L, b, k, F, read, min_mq, dedup, key_tags):
    PYS.files = {'x.bam': dict(references=['chr1'], lengths=[L], reads=[read])}
    cmds = list(B.generate_commands('x.bam', bin_size=b, bins_per_job=k, max_fragment_size=F, min_mq=min_mq, key_tags=key_tags, dedup=dedup, kwargs={}))
    total = {}
    for cmd in cmds:
        res = B.count_fragments_binned(cmd)
        total = _merge(total, res)
    return total, cmds


def _l1_single_read(L: int, b: int, k: int, F: int, rs: int, rl: int, ds_present: bool, ds: int, read1: bool, qcfail: bool, dup: bool, mi: int,
                    mapq: int, min_mq: int, dedup: bool, keyed: bool, da_present: bool) -> bool:
    # helper (deliberately WITHOUT a pre/post docstring: CrossHair would treat a nested contract as a sub-lemma and ignore its failure in the caller)
    read = LRead(reference_name='chr1', reference_start=rs, cigartuples=[(0, rl)], seq='ACG'[:rl], qual='III'[:rl], is_read1=read1, is_read2=not read1,
                 is_qcfail=qcfail, is_duplicate=dup, mapping_quality=mapq)
    read.mi, read.ds_present, read.ds, read.da_present = mi, ds_present, ds, da_present
    total, cmds = _count_all(L, b, k, F, read, min_mq, dedup, ['DA'] if keyed else None)
    # (no clause about the shape of the jobs: how the contig is split is the implementation's business, the property is about the table)
    site = ds if ds_present else rs
    counted = read1 and (not qcfail) and (not (dedup and dup)) and (mi != 2) and (mapq >= min_mq) and (0 <= site < L)
    if not counted:
        return total == {}
    bi = site // b
    be = b * (bi + 1)
    if be > L:
        be = L
    key = ('chr1', b * bi, be)
    if keyed:
        key = (('a1' if da_present else None),) + key
    return total == {key: {'cellA': 1}}


def _l1_geometry(L: int, b: int, k: int, F: int, rs: int, rl: int, ds_present: bool, ds: int) -> bool:
    """
    pre: 1 <= L <= 12
    pre: 1 <= b <= 4
    pre: 1 <= k <= 4
    pre: 0 <= F
    pre: 0 <= rs and 1 <= rl <= 3 and rs + rl <= L
    pre: (not ds_present) or (rs - F <= ds <= rs + rl - 1 + F and 0 <= ds < L)
    post: _
    """
    return _l1_single_read(L, b, k, F, rs, rl, ds_present, ds, True, False, False, 0, 60, 50, True, False, False)


def _l1_filters(read1: bool, qcfail: bool, dup: bool, mi: int, mapq: int, min_mq: int, dedup: bool, keyed: bool, da_present: bool, ds_present: bool) -> bool:
    """
    pre: 0 <= mi <= 2
    pre: 0 <= mapq <= 60 and 0 <= min_mq <= 60
    post: _
    """
    return _l1_single_read(5, 2, 1, 3, 1, 2, ds_present, 3, read1, qcfail, dup, mi, mapq, min_mq, dedup, keyed, da_present)


def _l4_two_files(LA: int, LB: int, rs: int, b: int) -> bool:
    """
    pre: 1 <= LA <= 5 and 1 <= LB <= 5
    pre: 0 <= rs < LB
    pre: 1 <= b <= 2
    post: _
    """
    # history: one process counts file A and then file B; both have a contig called chr1, of different length
    ra = LRead(reference_name='chr1', reference_start=0, cigartuples=[(0, 1)], seq='A', qual='I', is_read1=True, is_read2=False, mapping_quality=60)
    rb = LRead(reference_name='chr1', reference_start=rs, cigartuples=[(0, 1)], seq='A', qual='I', is_read1=True, is_read2=False, mapping_quality=60)
    for r in (ra, rb):
        r.mi, r.ds_present, r.ds, r.da_present = 0, False, 0, False
    PYS.files = {'a.bam': dict(references=['chr1'], lengths=[LA], reads=[ra]), 'b.bam': dict(references=['chr1'], lengths=[LB], reads=[rb])}
    totals = {}
    for path in ('a.bam', 'b.bam'):
        total = {}
        for cmd in B.generate_commands(path, bin_size=b, bins_per_job=1, max_fragment_size=2, min_mq=50, key_tags=None, dedup=True, kwargs={}):
            total = _merge(total, B.count_fragments_binned(cmd))
        totals[path] = total
    bi = rs // b
    be = b * (bi + 1)
    if be > LB:
        be = LB
    ea = b if b < LA else LA
    return totals['a.bam'] == {('chr1', 0, ea): {'cellA': 1}} and totals['b.bam'] == {('chr1', b * bi, be): {'cellA': 1}}


def _l5_two_reads(bi: int, k: int, p1: int, p2: int, same_cell: bool) -> bool:
    """
    pre: 0 <= bi <= 3
    pre: 1 <= k <= 4
    pre: 0 <= p1 <= 9 and 0 <= p2 <= 9
    post: _
    """
    # realistic scale: a 2.6 Mb contig, bins of 250 kb .. 1 Mb, two reads whose sites are picked around job / bin boundaries;
    # every job split must give the same per-bin, per-cell table (a bin must never be produced by two jobs and merged by overwrite)
    L = 2_600_000
    b = pick([250_000, 300_000, 700_000, 1_000_000], bi)
    POS = [0, 299_999, 300_000, 999_999, 1_000_000, 1_000_001, 1_199_999, 1_200_000, 2_099_999, 2_599_999]
    s1, s2 = pick(POS, p1), pick(POS, p2)
    reads = []
    for i, s_ in enumerate(sorted((s1, s2))):
        r = LRead(reference_name='chr1', reference_start=s_, cigartuples=[(0, 1)], seq='A', qual='I', is_read1=True, is_read2=False, mapping_quality=60)
        r.mi, r.ds_present, r.ds, r.da_present = 0, False, 0, False
        r.cell = 'cellA' if (same_cell or i == 0) else 'cellB'
        reads.append(r)
    # per-read sample: LRead.get_tag('SM') returns 'cellA'; give the second read its own cell through a subclass attribute
    class R2(LRead):
        def get_tag(self, t):
            if t == 'SM':
                return self.cell
            return LRead.get_tag(self, t)
    for r in reads:
        r.__class__ = R2
    PYS.files = {'x.bam': dict(references=['chr1'], lengths=[L], reads=reads)}
    total = {}
    for cmd in B.generate_commands('x.bam', bin_size=b, bins_per_job=k, max_fragment_size=1000, min_mq=50, key_tags=None, dedup=True, kwargs={}):
        total = _merge(total, B.count_fragments_binned(cmd))
    exp = {}
    for r in reads:
        i = r.reference_start // b
        key = ('chr1', b * i, min(b * (i + 1), L))
        exp.setdefault(key, {})
        exp[key][r.cell] = exp[key].get(r.cell, 0) + 1
    return total == exp


def _l6_two_reads_site_order(L: int, b: int, k: int, sa: int, da: int, sb: int, db: int, F: int) -> bool:
    """
    pre: 2 <= L <= 8
    pre: 1 <= b <= 3
    pre: 1 <= k <= 2
    pre: 0 <= sa <= sb < L
    pre: 0 <= da < L and 0 <= db < L
    pre: 0 <= F <= 3
    pre: da - sa <= F and sa - da <= F and db - sb <= F and sb - db <= F
    post: _
    """
    # two one-base reads of one cell, coordinate sorted by their START (sa <= sb) as a BAM is, with explicit sites (DS) that may be
    # ordered the other way round (a reverse read has its site at its far end): the file is sorted by read start, NOT by site, so
    # the first read may belong to a later job while the second one is still owned by the current job
    ra = LRead(reference_name='chr1', reference_start=sa, cigartuples=[(0, 1)], seq='A', qual='I', is_read1=True, is_read2=False, mapping_quality=60)
    rb = LRead(reference_name='chr1', reference_start=sb, cigartuples=[(0, 1)], seq='A', qual='I', is_read1=True, is_read2=False, mapping_quality=60)
    ra.mi, ra.ds_present, ra.ds, ra.da_present = 0, True, da, False
    rb.mi, rb.ds_present, rb.ds, rb.da_present = 0, True, db, False
    PYS.files = {'x.bam': dict(references=['chr1'], lengths=[L], reads=[ra, rb])}
    total = {}
    for cmd in B.generate_commands('x.bam', bin_size=b, bins_per_job=k, max_fragment_size=F, min_mq=50, key_tags=None, dedup=True, kwargs={}):
        total = _merge(total, B.count_fragments_binned(cmd))
    exp = {}
    for site in (da, db):
        i = site // b
        end = b * (i + 1)
        key = ('chr1', b * i, end if end < L else L)
        exp.setdefault(key, {})
        exp[key]['cellA'] = exp[key].get('cellA', 0) + 1
    return {k_: dict(v) for k_, v in total.items() if v} == exp


def _l3_merge(n1: int, n2: int, a0: int, a1: int, b0: int, b1: int, c0: int, c1: int, order: bool) -> bool:
    """
    pre: 0 <= n1 <= 2 and 0 <= n2 <= 2
    pre: 0 <= a0 <= 1 and 0 <= a1 <= 1 and 0 <= b0 <= 1 and 0 <= b1 <= 1
    pre: 1 <= c0 and 1 <= c1
    post: _
    """
    # two job results over disjoint bin ids (bins of different jobs never coincide: L1) merged in either arrival order
    BINS1 = [('chr1', 0, 2), ('chr1', 2, 4)]
    BINS2 = [('chr1', 4, 6), ('chr1', 6, 8)]
    CELLS = ['cellA', 'cellB']
    r1 = {}
    for i, (s, c) in enumerate([(a0, c0), (a1, c1)][:n1]):
        r1.setdefault(BINS1[i], {})[pick(CELLS, s)] = c
    r2 = {}
    for i, (s, c) in enumerate([(b0, c1), (b1, c0)][:n2]):
        r2.setdefault(BINS2[i], {})[pick(CELLS, s)] = c
    exp = {}
    for r in (r1, r2):
        for bid, sd in r.items():
            exp[bid] = dict(sd)
    first, second = (r1, r2) if order else (r2, r1)
    got = _merge(_merge({}, first), second)
    return got == exp


def _l3b_merge_two_files(n1: int, n2: int, a0: int, a1: int, b0: int, b1: int, c0: int, c1: int, d0: int, d1: int, order: bool) -> bool:
    """
    pre: 0 <= n1 <= 2 and 0 <= n2 <= 2
    pre: 0 <= a0 <= 1 and 0 <= a1 <= 1 and 0 <= b0 <= 1 and 0 <= b1 <= 1
    pre: 1 <= c0 and 1 <= c1 and 1 <= d0 and 1 <= d1
    post: _
    """
    # generate_commands accepts a LIST of BAM files: the jobs of two files cover the SAME bins, possibly for the same cell
    # (one library sequenced on two lanes). Merged in either arrival order the table must hold the sum per bin and cell.
    BINS = [('chr1', 0, 2), ('chr1', 2, 4)]
    CELLS = ['cellA', 'cellB']
    r1 = {}
    for i, (s, c) in enumerate([(a0, c0), (a1, c1)][:n1]):
        r1.setdefault(BINS[i], {})[pick(CELLS, s)] = c
    r2 = {}
    for i, (s, c) in enumerate([(b0, d0), (b1, d1)][:n2]):
        r2.setdefault(BINS[i], {})[pick(CELLS, s)] = c
    exp = {}
    for r in (r1, r2):
        for bid, sd in r.items():
            for cell, c in sd.items():
                exp.setdefault(bid, {})
                exp[bid][cell] = exp[bid].get(cell, 0) + c
    first, second = (r1, r2) if order else (r2, r1)
    got = _merge(_merge({}, {k: dict(v) for k, v in first.items()}), {k: dict(v) for k, v in second.items()})
    return {k: dict(v) for k, v in got.items()} == exp


_T = {'quick': 240, 'thorough': 1200}
LEMMAS = [
    dict(name='L1_geometry_all_partitions', fn='_l1_geometry', engine='E1', timeout=_T, replay='replay.C12:replay',
         cases={'quick': [dict(id='b%d_k%d_L%d' % (b, k, L), pre=['b == %d' % b, 'k == %d' % k, 'L == %d' % L]) for b in (1, 2, 3) for k in (1, 2, 3) for L in (1, 2, 3, 4, 5, 6, 7) if L <= b * k * 3],
                'thorough': [dict(id='b%d_k%d_L%d' % (b, k, L), pre=['b == %d' % b, 'k == %d' % k, 'L == %d' % L]) for b in (1, 2, 3, 4) for k in (1, 2, 3, 4) for L in range(1, 13) if L <= b * k * 3]}),
    dict(name='L1_filters', fn='_l1_filters', engine='E1', timeout=_T, replay='replay.C12:replay'),
    dict(name='L4_two_files_same_contig_name', fn='_l4_two_files', engine='E1', timeout=_T, replay='replay.C12:replay'),
    dict(name='L5_two_reads_megabase_scale', fn='_l5_two_reads', engine='E1', timeout=_T, replay='replay.C12:replay',
         cases={'quick': [dict(id='b%d' % i, pre=['bi == %d' % i]) for i in range(4)]}),
    dict(name='L6_two_reads_start_vs_site_order', fn='_l6_two_reads_site_order', engine='E1', timeout=_T, replay='replay.C12:replay',
         cases={'quick': [dict(id='b%d_k%d_L%d' % (b, k, L), pre=['b == %d' % b, 'k == %d' % k, 'L == %d' % L]) for b in (1, 2) for k in (1, 2) for L in (2, 3, 4, 5) if L >= b + 1]}),
    dict(name='L3b_merge_two_files_same_bins', fn='_l3b_merge_two_files', engine='E1', timeout=_T, replay='replay.C12:replay'),
    dict(name='L3_merge_order', fn='_l3_merge', engine='E1', timeout=_T, replay='replay.C12:replay'),
]

PROPERTY = dict(
    functions=['bamBinCounts.generate_jobs / generate_commands / count_fragments_binned / read_counts', 'merge loop of bamBinCounts.obtain_counts (AST cut; disjoint bins of one file, and identical bins of two files)',
               'bamFunctions.get_contig_size / get_contig_sizes'],
    bounds={'quick': dict(contig='length 1..7 (at most 3 jobs)', bin_size='1..3', bins_per_job='1..3', max_fragment_size='unbounded >= 0',
                          read='one read: start / length 1..3 inside the contig, DS present or absent, a valid coordinate of the contig with distance(DS, read span) <= max_fragment_size, read1 / qcfail / duplicate / mp (absent, unique, multi) / MAPQ / threshold / dedup symbolic, optional key tag'),
            'thorough': dict(contig='1..12', bins_per_job='1..4')},
    outside=['multiprocessing.Pool (jobs are run serially and merged with the real merge loop)', 'alt_spans remapping', 'count_methylation_binned',
             'several reads interacting (counts are additive per read: argument only)'],
    assumptions=['the site lies within max_fragment_size of the read span (documented meaning of that parameter)',
                 'pysam.AlignmentFile replaced by FakePysamModule (fetch = reads overlapping the window); float cut in count_fragments_binned: %r' % (_CUTS,)],
    trusted=['stubs/fakebam.py', 'stubs/fakeread.py', 'vlib/astcut.py', 'vlib/floatcut.py'],
)
