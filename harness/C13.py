"""C13 - molecule consensus is the strict majority call and never reports a tie.
Real code: sequtils.pick_best_base_call / get_consensus_dictionaries / read_to_consensus_dict, Fragment.get_consensus, Molecule.get_consensus."""
from stubs.fakeread import FakeRead
from spec import c13 as S
from vlib.sym import pick
from singlecellmultiomics.utils.sequtils import pick_best_base_call

B = S.B5


def _l1_pick_best(n: int, p0: bool, p1: bool, p2: bool, b0: int, b1: int, b2: int, q0: int, q1: int, q2: int) -> bool:
    """
    pre: 0 <= n <= 3
    pre: 0 <= b0 <= 4 and 0 <= b1 <= 4 and 0 <= b2 <= 4
    pre: 0 <= q0 and 0 <= q1 and 0 <= q2
    post: _
    """
    calls = [((pick(B, b), q, 'A') if p else None) for p, b, q in zip([p0, p1, p2], [b0, b1, b2], [q0, q1, q2])][:n]
    got = pick_best_base_call(*calls)
    return tuple(got) == S.best_call(calls)


def _l2_mates(b1: int, b2: int, q1: int, q2: int, off: int, dove: bool, r1rev: bool) -> bool:
    """
    pre: 0 <= b1 <= 4 and 0 <= b2 <= 4
    pre: 0 <= q1 <= 60 and 0 <= q2 <= 60
    pre: 0 <= off <= 4
    post: _
    """
    # R1 covers [100,104), R2 covers [100+off, 104+off); the base at position 100+off (R1 offset off, R2 offset 0) is symbolic in both mates
    if off > 3:
        seq1 = 'AAAA'
    else:
        seq1 = 'AAAA'[:off] + pick(B, b1) + 'AAAA'[off + 1:]
    seq2 = pick(B, b2) + 'CCC'
    qa = [30, 30, 30, 30]
    if off <= 3:
        qa[off] = q1
    if not r1rev:
        f = S.paired_fragment(FakeRead, 100, seq1, qa, 100 + off, seq2, [q2, 30, 30, 30], r1_rev=False)
    else:
        f = S.paired_fragment(FakeRead, 100 + off, seq2.replace('C', 'A'), [q2, 30, 30, 30], 100, seq1, qa, r1_rev=True)
        return True if f is None else _mates_check(f, 100, off, seq1, qa, seq2.replace('C', 'A'), [q2, 30, 30, 30], dove, swapped=True)
    return _mates_check(f, 100, off, seq1, qa, seq2, [q2, 30, 30, 30], dove, swapped=False)


def _mates_check(f, start, off, seq1, q1s, seq2, q2s, dove, swapped):
    # left read covers [start, start+4), right read covers [start+off, start+off+4)
    got = f.get_consensus(dove_safe=dove)
    lo, hi = start, start + off + 4          # union span [lo, hi)
    # dove-safe window (inclusive): from the forward mate's start to the reverse mate's end - 1
    w_lo, w_hi = start, start + off + 4 - 1
    for pos in range(lo, hi):
        calls = []
        if start <= pos < start + 4:
            calls.append((seq1[pos - start], q1s[pos - start]))
        if start + off <= pos < start + off + 4:
            calls.append((seq2[pos - start - off], q2s[pos - start - off]))
        key = ('chr1', pos)
        if not calls:
            if key in got:
                return False
            continue
        if key not in got:
            return False
        if tuple(got[key]) != S.best_call(calls):
            return False
    return len(got) == len([1 for pos in range(lo, hi) if (start <= pos < start + 4) or (start + off <= pos < start + off + 4)])


def _l2b_dovetail(n1: int, s2: int, n2: int, r1rev: bool, dove: bool, b: int, q: int) -> bool:
    """
    pre: 1 <= n1 <= 6 and 1 <= n2 <= 6
    pre: -3 <= s2 <= 3
    pre: 0 <= b <= 4
    pre: 0 <= q <= 60
    post: _
    """
    # forward mate covers [100, 100+nf), reverse mate covers [100+s2, 100+s2+nr): any relative placement incl. dove tails on either side
    R = list(range(-3, 7))
    n1, s2, n2 = pick(R, n1 + 3), pick(R, s2 + 3), pick(R, n2 + 3)
    fwd_seq = (pick(B, b) + 'ACGTAC')[:n1]
    rev_seq = 'TGCATG'[:n2]
    fq = [q] + [30] * (n1 - 1)
    rq = [31] * n2
    if not r1rev:
        f = S.paired_fragment(FakeRead, 100, fwd_seq, fq, 100 + s2, rev_seq, rq, r1_rev=False)
    else:
        f = S.paired_fragment(FakeRead, 100 + s2, rev_seq, rq, 100, fwd_seq, fq, r1_rev=True)
    got = f.get_consensus(dove_safe=dove)
    lo, hi = 100, 100 + s2 + n2 - 1        # safe span (inclusive): forward mate's start .. reverse mate's last base
    want = {}
    for pos in range(min(100, 100 + s2), max(100 + n1, 100 + s2 + n2)):
        calls = []
        if 100 <= pos < 100 + n1:
            calls.append((fwd_seq[pos - 100], fq[pos - 100]))
        if 100 + s2 <= pos < 100 + s2 + n2:
            calls.append((rev_seq[pos - 100 - s2], rq[pos - 100 - s2]))
        if not calls:
            continue
        if dove and not (lo <= pos <= hi):
            continue
        want[('chr1', pos)] = S.best_call(calls)
    return {k: tuple(v) for k, v in got.items()} == want


def _l3_majority(k: int, a0: int, a1: int, a2: int, a3: int, c0: int, c1: int, c2: int, c3: int) -> bool:
    """
    pre: 1 <= k <= 4
    pre: 0 <= a0 <= 4 and 0 <= a1 <= 4 and 0 <= a2 <= 4 and 0 <= a3 <= 4
    pre: 0 <= c0 <= 4 and 0 <= c1 <= 4 and 0 <= c2 <= 4 and 0 <= c3 <= 4
    post: _
    """
    col0 = [pick(B, x) for x in [a0, a1, a2, a3][:k]]
    col1 = [pick(B, x) for x in [c0, c1, c2, c3][:k]]
    frags = [S.single_read_fragment(FakeRead, 100, col0[i] + col1[i], [30, 30], name='f%d' % i) for i in range(k)]
    return S.consensus_clause(frags, [col0, col1], 100) is None


def _l3b_majority_indel(k: int, variant: int, a0: int, a1: int, a2: int, c0: int, c1: int, c2: int) -> bool:
    """
    pre: 1 <= k <= 3
    pre: 1 <= variant <= 2
    pre: 0 <= a0 <= 4 and 0 <= a1 <= 4 and 0 <= a2 <= 4
    pre: 0 <= c0 <= 4 and 0 <= c1 <= 4 and 0 <= c2 <= 4
    post: _
    """
    # k fragments show bases (a_i, c_i) at reference positions 100 and 101; fragment 0 carries an indel between its two bases:
    # variant 1 = one inserted base (1M1I1M: still 100 and 101; the inserted base belongs to no reference position),
    # variant 2 = one deleted reference base (1M1D1M: its second base sits on 102, it does not cover 101)
    col0 = [pick(B, x) for x in [a0, a1, a2][:k]]
    col1 = [pick(B, x) for x in [c0, c1, c2][:k]]
    v = pick([0, 1, 2], variant)
    frags = []
    for i in range(k):
        if i == 0 and v == 1:
            frags.append(S.single_read_fragment(FakeRead, 100, col0[0] + 'T' + col1[0], [30, 30, 30], name='f0', cigartuples=[(0, 1), (1, 1), (0, 1)]))
        elif i == 0 and v == 2:
            frags.append(S.single_read_fragment(FakeRead, 100, col0[0] + col1[0], [30, 30], name='f0', cigartuples=[(0, 1), (2, 1), (0, 1)]))
        else:
            frags.append(S.single_read_fragment(FakeRead, 100, col0[i] + col1[i], [30, 30], name='f%d' % i))
    if v == 2:
        columns = [col0, [None] + col1[1:], [col1[0]] + [None] * (k - 1)]
    else:
        columns = [col0, col1]
    return S.consensus_clause(frags, columns, 100) is None


def _l3c_odd_pair(k: int, odd: int, a0: int, a1: int, a2: int) -> bool:
    """
    pre: 1 <= k <= 3
    pre: 0 <= odd <= 3
    pre: 0 <= a0 <= 4 and 0 <= a1 <= 4 and 0 <= a2 <= 4
    post: _
    """
    # dove_safe consensus (the methylation path): k inward-facing pairs each showing base a_i at position 100, plus - at insertion
    # position `odd` (3 = absent) - one pair whose mates point the same way (no safe window exists for it: it contributes nothing).
    # The vote of every other fragment counts, wherever the odd pair sits in the insertion order.
    bases = [pick(B, x) for x in [a0, a1, a2][:k]]
    frags = []
    for i, b in enumerate(bases):
        frags.append(S.paired_fragment(FakeRead, 100, b + 'ACG', [30] * 4, 102, 'CGTT', [30] * 4, r1_rev=False))
    oddpos = pick([0, 1, 2, 3], odd)
    if oddpos <= k and oddpos < 3:
        r1 = FakeRead(query_name='odd', reference_name='chr1', reference_start=100, cigartuples=[(0, 4)], seq='TTTT', qual='IIII', is_reverse=False,
                      is_read1=True, is_read2=False, is_paired=True, tags={'SM': 'lib_1', 'RX': 'ACG'})
        r2 = FakeRead(query_name='odd', reference_name='chr1', reference_start=100, cigartuples=[(0, 4)], seq='TTTT', qual='IIII', is_reverse=False,
                      is_read1=False, is_read2=True, is_paired=True, tags={'SM': 'lib_1', 'RX': 'ACG'})
        from singlecellmultiomics.fragment import Fragment
        frags.insert(oddpos, Fragment([r1, r2], umi_hamming_distance=0))
    got = S.molecule_of(frags).get_consensus(dove_safe=True)
    want = S.vote(bases)
    key = ('chr1', 100)
    if want is None:
        return key not in got
    return got.get(key) == want


def _l4_order(a0: int, a1: int, a2: int, p: int, dup: bool, shift: int) -> bool:
    """
    pre: 0 <= a0 <= 4 and 0 <= a1 <= 4 and 0 <= a2 <= 4
    pre: 0 <= p <= 5
    pre: 0 <= shift <= 1
    post: _
    """
    bases = [pick(B, a0), pick(B, a1), pick(B, a2)]
    perm = pick([(0, 1, 2), (0, 2, 1), (1, 0, 2), (1, 2, 0), (2, 0, 1), (2, 1, 0)], p)

    def mk(order, twice):
        frags = []
        for rep in range(2 if twice else 1):
            for i in order:
                # fragment 2 starts `shift` later: partial overlap
                st = 100 + (shift if i == 2 else 0)
                frags.append(S.single_read_fragment(FakeRead, st, bases[i] + 'G', [30, 30], name='f%d_%d' % (i, rep)))
        return S.molecule_of(frags).get_consensus()
    ref = mk((0, 1, 2), False)
    return mk(perm, dup) == ref



def preflight():
    """FakeRead against real pysam records of the repository's test BAM files, accessor by accessor"""
    from stubs.validate import validate_fakeread
    return validate_fakeread(300)

_T = {'quick': 200, 'thorough': 900}
LEMMAS = [
    dict(name='L1_pick_best_base_call', fn='_l1_pick_best', engine='E1', timeout=_T, replay='replay.C13:replay',
         cases={'quick': [dict(id='n%d' % n, pre=['n == %d' % n]) for n in (0, 1, 2)] + [dict(id='n3_b%d' % b, pre=['n == 3', 'b0 == %d' % b]) for b in range(5)]}),
    dict(name='L2_mate_overlap', fn='_l2_mates', engine='E1', timeout=_T, replay='replay.C13:replay',
         cases={'quick': [dict(id='off%d_%s' % (o, 'rev' if r else 'fwd'), pre=['off == %d' % o, 'r1rev == %s' % bool(r)]) for o in range(5) for r in (0, 1)]}),
    dict(name='L2b_dovetail_window', fn='_l2b_dovetail', engine='E1', timeout=_T, replay='replay.C13:replay',
         cases={'quick': [dict(id='%s_%s' % ('rev' if r else 'fwd', 'dove' if d else 'all'), pre=['r1rev == %s' % bool(r), 'dove == %s' % bool(d), 'b <= 1', 'q == 30 or q == 31 or q == 32', 'n1 <= 4', 'n2 <= 4', '-2 <= s2 <= 2']) for r in (0, 1) for d in (0, 1)],
                'thorough': [dict(id='%s_%s_n%d' % ('rev' if r else 'fwd', 'dove' if d else 'all', n), pre=['r1rev == %s' % bool(r), 'dove == %s' % bool(d), 'n1 == %d' % n, 'q == 30 or q == 31 or q == 32']) for r in (0, 1) for d in (0, 1) for n in range(1, 7)]}),
    dict(name='L3_majority', fn='_l3_majority', engine='E1', timeout=_T, replay='replay.C13:replay',
         cases={'quick': [dict(id='k%d' % k, pre=['k == %d' % k] + ['a%d == 0' % i for i in range(k, 4)] + ['c%d == 0' % i for i in range(4)]) for k in (1, 2, 3)] +
                         [dict(id='k4_a%d' % a, pre=['k == 4', 'a0 == %d' % a] + ['c%d == 0' % i for i in range(4)]) for a in range(5)] +
                         [dict(id='k3_two_positions_a%d' % a, pre=['k == 3', 'a0 == %d' % a, 'a3 == 0', 'c3 == 0', 'c0 <= 1', 'c1 <= 1', 'c2 <= 1']) for a in range(5)]}),
    dict(name='L3b_majority_indel', fn='_l3b_majority_indel', engine='E1', timeout=_T, replay='replay.C13:replay',
         cases={'quick': [dict(id='k%d_%s' % (k, 'ins' if v == 1 else 'del'), pre=['k == %d' % k, 'variant == %d' % v] + ['a%d == 0' % i for i in range(k, 3)] + ['c%d == 0' % i for i in range(k, 3)]) for k in (1, 2) for v in (1, 2)] +
                         [dict(id='k3_%s_a%d' % ('ins' if v == 1 else 'del', a), pre=['k == 3', 'variant == %d' % v, 'a0 == %d' % a, 'c0 <= 1', 'c1 <= 1', 'c2 <= 1']) for v in (1, 2) for a in range(5)]}),
    dict(name='L3c_same_strand_pair_skipped', fn='_l3c_odd_pair', engine='E1', timeout=_T, replay='replay.C13:replay',
         cases={'quick': [dict(id='k%d' % k, pre=['k == %d' % k] + ['a%d == 0' % i for i in range(k, 3)]) for k in (1, 2)] + [dict(id='k3_a%d' % a, pre=['k == 3', 'a0 == %d' % a]) for a in range(5)]}),
    dict(name='L4_order_duplication', fn='_l4_order', engine='E1', timeout=_T, replay='replay.C13:replay',
         cases={'quick': [dict(id='a%d_s%d_%s' % (a, sh, 'dup' if du else 'once'), pre=['a0 == %d' % a, 'shift == %d' % sh, 'dup == %s' % bool(du)]) for a in range(5) for sh in (0, 1) for du in (0, 1)]}),
]

PROPERTY = dict(
    functions=['sequtils.pick_best_base_call', 'sequtils.get_consensus_dictionaries / read_to_consensus_dict', 'fragment.Fragment.get_consensus', 'molecule.Molecule.get_consensus'],
    bounds=dict(pick_best='<=3 calls, bases over ACGTN, UNBOUNDED non-negative qualities, missing calls', mates='one pair overlapping by 0..4 bases, the overlapping base of each mate over ACGTN with quality 0..60, both orientations, dove_safe on/off; every placement of a forward mate of length 1..6 against a reverse mate of length 1..6 starting -3..+3 (dove tails on both sides)',
                majority='1..4 single-read fragments x 1 position over ACGTN (all 5^4 columns), 3 fragments x 2 positions; 1..3 fragments x 2 positions where the first fragment has a one-base insertion or deletion between them', order='all 6 insertion orders of 3 fragments, each fragment duplicated, partial overlap'),
    outside=['molecules of more than 4 fragments (the vote is per position and count-based: argument only)', 'indels longer than one base / in more than one fragment', 'only_include_refbase / cycle skipping options', 'fragments without read 1, bases outside ACGTN'],
    assumptions=['bases are selected by symbolic indices into ACGTN (numpy sees concrete counts on each path)', 'FakeRead.get_aligned_pairs(with_seq) models pysam for M-only CIGARs'],
    trusted=['stubs/fakeread.py', 'spec/c13.py'],
)
