"""C07 - molecule partition independent of the buffer-ejection schedule.
Real code: MoleculeIterator.__iter__/_clear_cache/yield_func (ejection step), Molecule.can_be_yielded."""
from typing import Optional
from spec import c07 as S
from singlecellmultiomics.molecule import Molecule


def _l1_eject(n: int, f0: bool, f1: bool, f2: bool, f3: bool, f4: bool, h0: int, h1: int, h2: int, h3: int, h4: int,
              pooling: int, cee: int) -> bool:
    """
    pre: 2 <= n <= 5
    pre: 0 <= pooling <= 1
    pre: 0 <= h0 <= 1 and 0 <= h1 <= 1 and 0 <= h2 <= 1 and 0 <= h3 <= 1 and 0 <= h4 <= 1
    pre: pooling == 1 or (h0 == 0 and h1 == 0 and h2 == 0 and h3 == 0 and h4 == 0)
    pre: -1 <= cee <= 5
    post: _
    """
    flags = [f0, f1, f2, f3, f4]
    return S.check_eject_step(n, flags, [h0, h1, h2, h3, h4], pooling, None if cee < 0 else cee) is None


def l2_margin_e2(tier='quick', case=None, seed=0):
    """E2: Molecule.can_be_yielded translated from its source to z3 (ints; cache_size*0.5 as a real).
    Negated claim: sorted input, short fragments, molecule declared ejectable at the current fragment's end,
    yet a later fragment G shares the molecule's site. unsat = holds for all integers."""
    import z3, time
    from vlib import py2smt as T
    Sp, E, c, fs, fe, gs, ge, sm, sg = z3.Ints('Sp E c fs fe gs ge site_m site_g')
    env = {'self.chromosome': 'chr1', 'self.spanStart': Sp, 'self.spanEnd': E, 'self.cache_size': c}
    same, rc, _ = T.translate(Molecule.can_be_yielded, dict(chromosome='chr1', position=fe), env=env)
    other, _, _ = T.translate(Molecule.can_be_yielded, dict(chromosome='chr2', position=fe), env=env)
    none, _, _ = T.translate(Molecule.can_be_yielded, dict(chromosome=None, position=fe), env=env)
    pre = [0 <= Sp, Sp <= E, c >= 40, Sp - 6 <= sm, sm <= E + 6, Sp <= fs, fs <= fe, fs <= gs, gs <= ge,
           2 * (fe - fs) < c - 26, 2 * (ge - gs) < c - 26, gs - 6 <= sg, sg <= ge + 6]
    queries, tot, n = [], 0.0, 0
    # translator validation against the real method on a grid
    class M: pass
    bad = 0
    pts = 0
    for s_ in (0, 5, 100):
        for e_ in (s_, s_ + 7, s_ + 300):
            for c_ in (40, 41, 1000, 10000):
                for p_ in (0, e_ + c_ // 2, e_ + c_ // 2 + 1, s_ - c_ // 2 - 1, e_ + c_):
                    m = M(); m.chromosome, m.spanStart, m.spanEnd, m.cache_size = 'chr1', s_, e_, c_
                    real = Molecule.can_be_yielded(m, 'chr1', p_)
                    enc = z3.simplify(z3.substitute(same, (Sp, z3.IntVal(s_)), (E, z3.IntVal(e_)), (c, z3.IntVal(c_)), (fe, z3.IntVal(p_))))
                    pts += 1
                    if z3.is_true(enc) != bool(real):
                        bad += 1
    if bad:
        return dict(verdict='error', detail='translator validation failed on %d/%d points' % (bad, pts))
    r0, m0, dt0 = T.solve(pre + [same], seed=seed)   # vacuity twin: an ejectable molecule must exist under the pre-conditions
    if r0 != 'sat':
        return dict(verdict='vacuous', detail='pre-conditions + ejectable unsatisfiable (%s)' % r0)
    res = []
    for name, goal in (('margin', z3.And(same, sg == sm)), ('other_contig_yieldable', z3.Not(other)), ('no_position_not_yieldable', none)):
        r, model, dt = T.solve(pre + [goal], seed=seed)
        tot += dt; n += 1
        res.append((name, r, model))
    out = dict(solver_calls=n, solver_s=round(tot, 3), paths=0, nontrivial=n + pts,
               samples=[dict(lemma='L2_margin', kind='reachability witness (ejectable molecule under the pre-conditions)', input=m0), dict(lemma='L2_margin', kind='translator validation points (real can_be_yielded vs encoding)', count=pts)],
               detail='; '.join('%s=%s' % (a, b) for a, b, _ in res) + ' | ' + T.cross_summary())
    sat = [x for x in res if x[1] == 'sat']
    if sat:
        out.update(verdict='refuted', cex=dict(sat[0][2], goal=sat[0][0]))
    elif all(x[1] == 'unsat' for x in res):
        out['verdict'] = 'unsat'
    else:
        out['verdict'] = 'unknown'
    return out


_SP = [0, 10, 60, 200]
_LP = [0, 5, 100]
_PP = [0, 49, 50, 51, 111, 261, 400]


def _l2b_span_growth(s0: int, l0: int, s1: int, l1: int, s2: int, l2: int, p0: int) -> bool:
    """
    pre: 0 <= s0 <= 3 and 0 <= s1 <= 3 and 0 <= s2 <= 3
    pre: 0 <= l0 <= 2 and 0 <= l1 <= 2 and -1 <= l2 <= 2
    pre: 0 <= p0 <= 6
    post: _
    """
    from vlib.sym import pick
    spans = [(pick(_SP, s0), pick(_SP, s0) + pick(_LP, l0)), (pick(_SP, s1), pick(_SP, s1) + pick(_LP, l1))]
    if l2 >= 0:
        spans.append((pick(_SP, s2), pick(_SP, s2) + pick(_LP, l2)))
    return S.span_growth_clause(Molecule, spans, 100, (pick(_PP, p0),)) is None


_T = {'quick': 120, 'thorough': 900}
LEMMAS = [
    dict(name='L1_eject_step', fn='_l1_eject', engine='E1', timeout=_T, replay='replay.C07:replay_eject',
         cases={'quick': [dict(id='n%d_p%d' % (n, p), pre=['n == %d' % n, 'pooling == %d' % p]) for n in (2, 3, 4) for p in (0, 1)],
                'thorough': [dict(id='n%d_p%d' % (n, p), pre=['n == %d' % n, 'pooling == %d' % p]) for n in (2, 3, 4, 5) for p in (0, 1)]}),
    dict(name='L2b_window_tracks_span', fn='_l2b_span_growth', engine='E1', timeout=_T, replay='replay.C07:replay_span',
         cases={'quick': [dict(id='2frag', pre=['l2 == -1', 's2 == 0'])], 'thorough': [dict(id='2frag', pre=['l2 == -1', 's2 == 0'])] + [dict(id='3frag_s%d' % i, pre=['l2 >= 0', 's0 == %d' % i]) for i in range(4)]}),
    dict(name='L2_margin', run='l2_margin_e2', engine='E2', timeout=_T, replay='replay.C07:replay_margin'),
]

PROPERTY = dict(
    functions=['singlecellmultiomics.molecule.iterator.MoleculeIterator.__iter__ (ejection block, both pooling methods)',
               'singlecellmultiomics.molecule.molecule.Molecule.can_be_yielded / _add_fragment (span bookkeeping)'],
    bounds={'quick': dict(buffered_molecules='2..4', yieldable_subset='arbitrary (symbolic bool per molecule)', hash_groups='<=2',
                          check_eject_every='None, 0..5', margin='unbounded integer coordinates'),
            'thorough': dict(buffered_molecules='2..5')},
    outside=['fragments joining existing molecules during the step (covered by C06 grouping lemmas)',
             'MatePairIterator (third party)', 'perform_allele_clustering', 'the plain Fragment class under both pooling methods (its start-OR-end equality is not transitive, so the two methods can group differently)'],
    assumptions=['L1 is an inductive step: arbitrary buffer of distinct molecules, arbitrary (time-invariant) can_be_yielded verdicts',
                 'L2: sorted input, every fragment shorter than cache_size/2 - 13, site within 6 nt of its fragment (soft clip bound)',
                 'composition L1 (ejects exactly the yieldable set, nothing else) + L2 (yieldable => closed) => schedule independence; the composition itself is a paper argument'],
    trusted=['spec/c07.py (stub fragment/molecule classes passed through the public MoleculeIterator API)'],
)
