"""C10 - binned count tables: each counted read lands in exactly the bins containing it.
Real code: coordinate_to_sliding_bin_locations / coordinate_to_bins (bamToCountTable.py AND utils/binning.py),
binning branch of assignReads."""
import z3, time
from vlib import py2smt as T, floatcut
from stubs.fakeread import FakeRead
from spec import c10 as S
from vlib import astcut
from stubs.fakebam import FakePysamModule
import collections, io, contextlib
import singlecellmultiomics.bamProcessing.bamToCountTable as CT
import singlecellmultiomics.utils.binning as UB

_o = lambda f: getattr(f, '__floatcut_orig__', f)
_REAL = {'bamToCountTable': (_o(CT.coordinate_to_sliding_bin_locations), CT.coordinate_to_bins),
         'utils.binning': (_o(UB.coordinate_to_sliding_bin_locations), UB.coordinate_to_bins)}
# float-cut copies for E1 (the E2 lemma uses the uncut source with real division)
_CUTS = {}
_CUTS.update({'CT.' + k: v for k, v in floatcut.install(CT, ['coordinate_to_sliding_bin_locations']).items()})
_CUTS.update({'UB.' + k: v for k, v in floatcut.install(UB, ['coordinate_to_sliding_bin_locations']).items()})


def l1_sliding_e2(tier='quick', case=None, seed=0):
    which = case['which']
    fn = _REAL[which][0]
    p, b, s, i = z3.Ints('p b s i')
    (start, end, sid, eid), rc, _ = T.translate(fn, dict(dp=p, bin_size=b, sliding_increment=s))
    pre = [p >= 0, s >= 1, s <= b]
    # translator validation on a grid, against the real function (real numpy floats)
    pts = bad = 0
    for pv in list(range(0, 40)) + [999, 1000, 1001, 12345678]:
        for bv in (1, 2, 3, 4, 7, 10, 1000):
            for sv in (1, 2, 3, 5, 1000):
                if sv > bv:
                    continue
                real = tuple(int(x) for x in fn(pv, bv, sv))
                enc = [z3.simplify(z3.substitute(t, (p, z3.IntVal(pv)), (b, z3.IntVal(bv)), (s, z3.IntVal(sv)))) for t in (start, end, sid, eid)]
                pts += 1
                if tuple(e.as_long() for e in enc) != real:
                    bad += 1
    if bad:
        return dict(verdict='error', detail='translator validation: %d/%d points disagree' % (bad, pts))
    r0, m0, _ = T.solve(pre + [sid <= eid], seed=seed)
    if r0 != 'sat':
        return dict(verdict='vacuous', detail='reach: ' + r0)
    goals = [
        ('membership', z3.Not(z3.And(sid <= i, i <= eid) == z3.And(i * s <= p, p < i * s + b))),
        ('start_end', z3.Not(z3.And(start == sid * s, end == eid * s + b))),
        ('non_sliding_single_bin', z3.And(s == b, z3.Not(z3.And(sid == eid, sid * b <= p, p < sid * b + b)))),
    ]
    n, tot, res, mode = 0, 0.0, [], 'general NIA (b, s symbolic)'
    for name, g in goals:
        r, model, dt = T.solve(pre + [g], timeout_ms=20000, seed=seed)
        n += 1; tot += dt
        if r == 'unknown':
            # fall back: every concrete (b, s) of a grid with p, i unbounded (linear)
            mode = 'grid of concrete (b,s) in 1..12 with p, i unbounded'
            r = 'unsat'
            for bv in range(1, 13):
                for sv in range(1, bv + 1):
                    rr, model, dt = T.solve(pre + [g, b == bv, s == sv], timeout_ms=20000, seed=seed)
                    n += 1; tot += dt
                    if rr != 'unsat':
                        r = rr
                        break
                if r != 'unsat':
                    break
        res.append((name, r, model))
    out = dict(solver_calls=n, solver_s=round(tot, 3), paths=0, nontrivial=n + pts,
               detail='%s; %s | %s' % (mode, '; '.join('%s=%s' % (a, r) for a, r, _ in res), T.cross_summary()),
               samples=[dict(lemma='L1_sliding/' + which, kind='reachability witness', input=m0),
                        dict(lemma='L1_sliding/' + which, kind='translator validation points vs real numpy function', count=pts)])
    sat = [x for x in res if x[1] == 'sat']
    if sat:
        out.update(verdict='refuted', cex=dict(sat[0][2], goal=sat[0][0], which=which))
    elif all(x[1] == 'unsat' for x in res):
        out['verdict'] = 'unsat'
    else:
        out['verdict'] = 'unknown'
    return out


def lf_float_cut(tier='quick', case=None, seed=0):
    """Lemma F (the float cut every AST rewrite int(np.floor(A/B)) -> A//B, int(np.ceil(A/B)) -> -((-A)//B), int(A/B) -> A//B relies on),
    decided for IEEE-754 doubles by the cvc5 binary on a bit-precise QF_BVFP encoding: for all integers 0 <= A < 2**K, 1 <= B < 2**M
    the double-precision expression equals the integer one. K, M are what the bit-blaster finishes in the budget; the general statement
    (|A| < 2**52) stays an assumption with a paper argument (DESIGN 1.1 rule 3)."""
    import os, shutil, subprocess, tempfile, time
    K, M = (12, 6) if tier == 'quick' else (14, 6)
    kind = case['kind']
    W = 64
    tail = {'floor': '(define-fun fl () (_ FloatingPoint 11 53) (fp.roundToIntegral RTN q))\n(assert (not (= ((_ fp.to_ubv %d) RTZ fl) (bvudiv a b))))' % W,
            'trunc': '(define-fun fl () (_ FloatingPoint 11 53) (fp.roundToIntegral RTZ q))\n(assert (not (= ((_ fp.to_ubv %d) RTZ fl) (bvudiv a b))))' % W,
            'ceil': '(define-fun fl () (_ FloatingPoint 11 53) (fp.roundToIntegral RTP q))\n(assert (not (= ((_ fp.to_ubv %d) RTZ fl) (bvudiv (bvsub (bvadd a b) (_ bv1 %d)) b))))' % (W, W)}[kind]
    text = """(set-logic QF_BVFP)
(declare-const a (_ BitVec {W}))
(declare-const b (_ BitVec {W}))
(assert (bvult a (_ bv{A} {W})))
(assert (bvult b (_ bv{B} {W})))
(assert (bvuge b (_ bv1 {W})))
(define-fun fa () (_ FloatingPoint 11 53) ((_ to_fp_unsigned 11 53) RNE a))
(define-fun fb () (_ FloatingPoint 11 53) ((_ to_fp_unsigned 11 53) RNE b))
(define-fun q () (_ FloatingPoint 11 53) (fp.div RNE fa fb))
{tail}
(check-sat)
(get-value (a b))
""".format(W=W, A=2 ** K, B=2 ** M, tail=tail)
    exe = shutil.which('cvc5')
    if exe is None:
        return dict(verdict='unknown', detail='cvc5 binary not on PATH', solver_calls=0, solver_s=0.0, paths=0)
    d = os.environ.get('VERIF_SCRATCH') or os.path.join(os.path.dirname(os.path.dirname(os.path.abspath(__file__))), '.scratch')
    os.makedirs(d, exist_ok=True)
    fd, path = tempfile.mkstemp(suffix='.smt2', dir=d)
    budget = (case or {}).get('timeout') or _T[tier]
    try:
        with os.fdopen(fd, 'w') as h:
            h.write(text)
        t = time.perf_counter()
        try:
            p = subprocess.run([exe, '--produce-models', '--tlimit=%d' % (budget * 1000), path], capture_output=True, text=True, timeout=budget + 15)
            lines = (p.stdout + p.stderr).strip().splitlines()
        except subprocess.TimeoutExpired:
            lines = ['timeout']
        dt = time.perf_counter() - t
    finally:
        try:
            os.remove(path)
        except OSError:
            pass
    # reachability twin: python floats on a grid inside the bound must satisfy the same statement (and exercise all three roundings)
    import math
    pts = 0
    for av in list(range(0, 70)) + [2 ** K - 1, 2 ** K - 2, 4095, 1000]:
        for bv in (1, 2, 3, 5, 7, 2 ** M - 1):
            if av >= 2 ** K or bv >= 2 ** M:
                continue
            got = {'floor': int(math.floor(av / bv)), 'trunc': int(av / bv), 'ceil': int(math.ceil(av / bv))}[kind]
            want = {'floor': av // bv, 'trunc': av // bv, 'ceil': -((-av) // bv)}[kind]
            pts += 1
            if got != want:
                return dict(verdict='refuted', detail='python floats disagree at A=%d B=%d' % (av, bv), cex=dict(A=av, B=bv, kind=kind), solver_calls=1, solver_s=round(dt, 2), paths=0)
    out = dict(solver_calls=1, solver_s=round(dt, 2), paths=0, nontrivial=1 + pts,
               samples=[dict(lemma='LF_float_cut/' + kind, kind='QF_BVFP query decided by cvc5', bound='0 <= A < 2**%d, 1 <= B < 2**%d' % (K, M), grid_points=pts)])
    first = lines[0].strip() if lines else ''
    # (get-value) after an unsat answer prints an (error ...) line: only errors *before* the verdict make the run inconclusive
    if first.startswith('(error') or (first not in ('sat', 'unsat') and any('(error' in l for l in lines)):
        out.update(verdict='unknown', detail='cvc5 error: %s' % ' '.join(lines)[:200])
    elif first == 'unsat':
        out.update(verdict='unsat', detail='cvc5 unsat for 0 <= A < 2**%d, 1 <= B < 2**%d (%s, %.1fs)' % (K, M, kind, dt))
    elif first == 'sat':
        out.update(verdict='refuted', detail='cvc5 sat: %s' % ' '.join(lines[1:])[:200], cex=dict(kind=kind, model=' '.join(lines[1:])[:200]))
    else:
        out.update(verdict='unknown', detail='cvc5: %s after %.0fs' % (first or 'no answer', dt))
    return out


def _l2_bins_ct(p: int, b: int, s: int) -> bool:
    """
    pre: 0 <= p <= 12
    pre: 1 <= s <= b <= 4
    post: _
    """
    return S.check_bins_list(CT.coordinate_to_bins, p, b, s) is None


def _l2_bins_ub(p: int, b: int, s: int) -> bool:
    """
    pre: 0 <= p <= 12
    pre: 1 <= s <= b <= 4
    post: _
    """
    return S.check_bins_list(UB.coordinate_to_bins, p, b, s) is None


def _l3_assign(p: int, b: int, s: int, keep: bool, reflen: int) -> bool:
    """
    pre: 0 <= p <= 12
    pre: 1 <= s <= b <= 4
    pre: 1 <= reflen <= 14
    post: _
    """
    return S.check_assign_binned(FakeRead, CT.assignReads, p, b, s, keep, reflen) is None


PYS = FakePysamModule()
# the per-file loop of create_count_table (the second `for bamFile in args.alignmentfiles` of that function), cut from the live source
_file_loop = astcut.cut_for(CT, 'create_count_table', 'args.alignmentfiles', index=1,
                            params=('args', 'countTable', 'joinFeatures', 'featureTags', 'sampleTags', 'blacklist_dic', 'pysam'), result='countTable',
                            from_stmt='assigned = 0', name='_file_loop')


def _l4_two_files(LA: int, LB: int, pa: int, pb: int, b: int, s: int, order: bool) -> bool:
    """
    pre: 1 <= LA <= 12 and 1 <= LB <= 12
    pre: 0 <= pa <= 12 and 0 <= pb <= 12
    pre: 1 <= s <= b <= 3
    post: _
    """
    # one call over two BAM files whose contig chr1 has different lengths: the out-of-bounds rule uses the length of the file a read comes from
    def rd(p, cell):
        return FakeRead(query_name='q', reference_name='chr1', reference_start=p, cigartuples=[(0, 1)], seq='A', qual='I', tags={'SM': cell, 'DS': p})
    PYS.files = {'a.bam': dict(references=['chr1'], lengths=[LA], reads=[rd(pa, 'cellA')]), 'b.bam': dict(references=['chr1'], lengths=[LB], reads=[rd(pb, 'cellB')])}
    args = S.make_args(b, s, False, 0, alignmentfiles=(['a.bam', 'b.bam'] if order else ['b.bam', 'a.bam']), contig=None, head=None)
    table = collections.defaultdict(collections.Counter)
    with contextlib.redirect_stdout(io.StringIO()):
        _file_loop(args, table, True, ['DS'], ['SM'], None, PYS)
    for cell, p, L in (('cellA', pa, LA), ('cellB', pb, LB)):
        exp = {w: 1 for w in S.windows(p, b, s) if w[0] >= 0 and w[1] <= L}
        got = {k: v for k, v in table.get((cell,), {}).items() if v != 0}
        if got != exp:
            return False
    return True


_T = {'quick': 150, 'thorough': 900}
LEMMAS = [
    dict(name='L1_sliding_unbounded', run='l1_sliding_e2', engine='E2', timeout=_T, replay='replay.C10:replay',
         cases={'quick': [dict(id='bamToCountTable', which='bamToCountTable'), dict(id='utils.binning', which='utils.binning')]}),
    dict(name='LF_float_cut_bounded', run='lf_float_cut', engine='E2', timeout={'quick': 200, 'thorough': 1500}, replay='replay.C10:replay',
         cases={'quick': [dict(id=k, kind=k) for k in ('floor', 'trunc', 'ceil')]}),
    dict(name='L2_bins_list_ct', fn='_l2_bins_ct', engine='E1', timeout=_T, replay='replay.C10:replay',
         cases={'quick': [dict(id='b%d' % b, pre=['b == %d' % b]) for b in (1, 2, 3, 4)]}),
    dict(name='L2_bins_list_ub', fn='_l2_bins_ub', engine='E1', timeout=_T, replay='replay.C10:replay',
         cases={'quick': [dict(id='b%d' % b, pre=['b == %d' % b]) for b in (1, 2, 3, 4)]}),
    dict(name='L3_assign_binned', fn='_l3_assign', engine='E1', timeout=_T, replay='replay.C10:replay',
         cases={'quick': [dict(id='b%d' % b, pre=['b == %d' % b]) for b in (1, 2, 3, 4)]}),
    dict(name='L4_two_files_contig_lengths', fn='_l4_two_files', engine='E1', timeout=_T, replay='replay.C10:replay_two_files',
         cases={'quick': [dict(id='b%d_s%d_%s' % (b, s_, 'ab' if o else 'ba'), pre=['b == %d' % b, 's == %d' % s_, 'order == %s' % bool(o), 'LA <= 5', 'LB <= 5', 'pa <= 5', 'pb <= 5']) for b in (1, 2, 3) for s_ in range(1, b + 1) for o in (1, 0)]}),
]

PROPERTY = dict(
    functions=['(lemma F: IEEE-754 double division + floor / ceil / truncation, encoded directly in SMT-LIB2 QF_BVFP)', 'bamToCountTable.coordinate_to_sliding_bin_locations', 'bamToCountTable.coordinate_to_bins',
               'utils.binning.coordinate_to_sliding_bin_locations', 'utils.binning.coordinate_to_bins',
               'bamToCountTable.assignReads (binning branch) + read_should_be_counted + readTag/metaFromRead', 'bamToCountTable.create_count_table: per-file loop (AST cut)'],
    bounds=dict(L1='all integers p >= 0, 1 <= s <= b (unbounded, z3 Int/Real; NIA)', L2_L3='p 0..12, 1 <= s <= b <= 4, contig length 1..14, keepOverBounds symbolic'),
    outside=['pandas export of the table', 'negative coordinates', 'split_double_BAM (calls coordinate_to_bins(p,b,b)[0], covered through L1/L2)'],
    assumptions=['float cut: int(np.ceil(A/B)) = -((-A)//B), int(np.floor(A/B)) = A//B (lemma F: exact for |A| < 2**52, 0 < B < 2**31 - paper argument; decided bit-precisely by cvc5 (QF_BVFP, IEEE doubles) only for 0 <= A < 2**12, 1 <= B < 2**6 in the quick tier and 2**14 / 2**6 in the thorough tier (16 / 8 bits did not finish in 600 s): lemma LF_float_cut_bounded); E2 treats float division as real division',
                 'float cuts applied at load: %r' % (_CUTS,)],
    trusted=['vlib/py2smt.py translator (validated on a grid against the real functions on every run)', 'vlib/floatcut.py', 'stubs/fakeread.py', 'spec/c10.py'],
)
