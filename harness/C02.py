"""C02 - demultiplexed records contain exactly the bases the protocol layout prescribes.
Real code: every strategy class registered in DemultiplexingStrategyLoader (__init__ + demultiplex), UmiBarcodeDemuxMethod,
ScatteredUmiBarcodeDemuxMethod, IlluminaBaseDemultiplexer, TaggedRecord. Oracle: spec/layouts.py (hand-written table)."""
import inspect, textwrap
from singlecellmultiomics.fastqProcessing.fastqIterator import FastqRecord
import singlecellmultiomics.modularDemultiplexer.baseDemultiplexMethods as BDM
from singlecellmultiomics.modularDemultiplexer.demultiplexingStrategyLoader import DemultiplexingStrategyLoader
from stubs.stubparser import StubBarcodeParser
from spec import layouts as S
from vlib.sym import pick


def _relax(mod, clsname, names):
    cls = getattr(mod, clsname)
    for n in names:
        fn = getattr(cls, n)
        fn = getattr(fn, '__relaxed_orig__', fn)
        src = textwrap.dedent(inspect.getsource(fn)).replace('except BaseException', 'except Exception')
        loc = {}
        exec(compile(src, '<relaxed:%s>' % n, 'exec'), fn.__globals__, loc)
        loc[n].__relaxed_orig__ = fn
        setattr(cls, n, loc[n])


_relax(BDM, 'TaggedRecord', ['_parse_illumina_header', 'fromRawFastq'])

PARSER = StubBarcodeParser()
PARSER.correct = S.corrected      # raw and corrected barcode differ, so a tag that stores the wrong one is visible
import io, contextlib
with contextlib.redirect_stdout(io.StringIO()):
    LOADER = DemultiplexingStrategyLoader(PARSER, indexParser=PARSER, indexFileAlias='idx')
STRATS = {s.shortName: s for s in LOADER.demultiplexingStrategies}
NAMES = sorted(STRATS)
FIXED = [n for n in NAMES if not S.LAYOUTS[n].get('content') and not S.LAYOUTS[n].get('bulk')]
HDR = '@NS500414:455:HYLVHBGX5:3:13601:9882:17671 %d:N:0:CGTACT'
# concrete mates: pairwise distinct characters so that bases / qualities taken from the wrong mate or offset are visible
C_SEQ = ['ABCDEFGHIJKLMNOPQRSTUVWXYZabcdefghijklmnopqrstuvwxyz', 'zyxwvutsrqponmlkjihgfedcbaZYXWVUTSRQPONMLKJIHGFEDCBA']
C_QUAL = ['PQRSTUVWXYZ[]^_`abcdefghijklmnopqrstuvwxyz{|}~!"#$%&()*+,-./0123456789:;<=>?@ABCDEFGHIJKLMNO'[:60],
          '~}|{zyxwvutsrqponmlkjihgfedcba`_^][ZYXWVUTSRQPONMLKJIHGFEDCBA@?>=<;:9876543210/.-,+*)(&%$#"!'[:60]]


def preflight():
    bad = S.table_tiling()
    assert not bad, bad
    missing = [n for n in NAMES if n not in S.LAYOUTS]
    assert len(CONTENT) == 5, CONTENT
    assert not missing, 'strategies registered in the loader without a layout in spec/layouts.py: %r' % missing
    return dict(strategies=NAMES, table_tiling='ok')


def _recs(mate, seq, nm):
    out = []
    for m in range(nm):
        if m == mate:
            q = (C_QUAL[m] * 2)[:len(seq)]
            out.append(FastqRecord(HDR % (m + 1), seq, '+', q))
        else:
            out.append(FastqRecord(HDR % (m + 1), C_SEQ[m], '+', C_QUAL[m][:len(C_SEQ[m])]))
    return out


def _l1_layout(si: int, mate: int, nm: int, seq: str) -> bool:
    """
    pre: 0 <= si < 24
    pre: 0 <= mate <= 1
    pre: 1 <= nm <= 2
    pre: mate < nm
    pre: len(seq) <= 64
    post: _
    """
    name = pick(FIXED, si)
    strat = STRATS[name]
    PARSER.min_len = sum(n for (_, _, n) in S.LAYOUTS[name]['bc'])      # a truncated barcode is in no whitelist
    try:
        return S.layout_clause(strat, _recs(mate, seq, nm), BDM.fastqHeaderSafeQualitiesToPhred) is None
    except BDM.NonMultiplexable:
        return True        # a rejected pair is outside C02 (C01 owns conservation)
    finally:
        PARSER.min_len = 0


CONTENT = [n for n in NAMES if S.LAYOUTS[n].get('content')]
_PFX1 = 'ACGTTGCAAGCTTA'          # 14 nt prefix region of mate 1 (UMI / barcode / ligation bases)
R1_POOL = [
    _PFX1 + 'CATGACGTTGCAAGTCAGGTCATT',                                   # plain insert
    _PFX1 + 'GGACTTAGTGTGTCTTTTTTTTTTGGAC',                              # expected VASA barcode (index 17) + poly-T: bleed-through
    _PFX1 + 'ACGT' + 'T' * 25 + 'ACG',                                    # long poly-T
    _PFX1 + 'GGAGTCCGACGATCCTTGACC',                                      # T7 / adapter oligo in the first 30 bases
    _PFX1 + 'CCGGTTAGACTCTTTGGCAT',                                       # template-switch oligo AGACTCTTT inside the insert
    'ACGTTAGACTCTTTCA' + 'CATGACGTTGCA',                                 # oligo overlapping the barcode prefix
    _PFX1 + 'TTTTTTACGTCATG',                                             # insert starting with poly-T (pruned by the transcriptome branch)
    _PFX1 + 'TTTT',                                                       # insert that is only T
    _PFX1,                                                                # empty insert
    _PFX1[:9],                                                            # truncated prefix
]
R2_POOL = [
    'GATTACAGATTACAGGCATGCA',
    'GATTACAGCC' + 'A' * 12 + 'GGCAT',                                   # poly-A inside
    'GATTACAGCC' + 'G' * 11 + 'TTCAT',                                   # poly-G inside
    'GATTACAGCCTTCATAGGAGAGA',                                           # trailing A/G run
    'AAAAAAAAAAGACACACTGCCTAG',                                          # reverse complement contains AGTGTGTCTTTTT
    '',
]


def content_case(a):
    name = CONTENT[a['si']]
    r1, r2 = R1_POOL[a['r1i']], R2_POOL[a['r2i']]
    recs = [FastqRecord(HDR % 1, r1, '+', (C_QUAL[0] * 2)[:len(r1)]), FastqRecord(HDR % 2, r2, '+', (C_QUAL[1] * 2)[:len(r2)])]
    PARSER.verdicts = {'DamID2': a['dam_ok'], 'DamID2_scattered_8bp': a['dam_ok'], 'DamID2_scattered_10bp': a['dam_ok'],
                       'celseq2': a['tx_ok'], 'CS2_scattered_8bp': a['tx_ok']}
    return name, recs


def _l2_content(si: int, r1i: int, r2i: int, dam_ok: bool, tx_ok: bool) -> bool:
    """
    pre: 0 <= si < 5
    pre: 0 <= r1i < 10
    pre: 0 <= r2i < 6
    post: _
    """
    name = pick(CONTENT, si)
    r1, r2 = pick(R1_POOL, r1i), pick(R2_POOL, r2i)
    recs = [FastqRecord(HDR % 1, r1, '+', (C_QUAL[0] * 2)[:len(r1)]), FastqRecord(HDR % 2, r2, '+', (C_QUAL[1] * 2)[:len(r2)])]
    PARSER.verdicts = {'DamID2': dam_ok, 'DamID2_scattered_8bp': dam_ok, 'DamID2_scattered_10bp': dam_ok, 'celseq2': tx_ok, 'CS2_scattered_8bp': tx_ok}
    try:
        return S.layout_clause(STRATS[name], recs, BDM.fastqHeaderSafeQualitiesToPhred) is None
    except BDM.NonMultiplexable:
        return True   # a rejected pair is outside C02 (C01 owns conservation)
    finally:
        PARSER.verdicts = {}


def _cases(tier):
    out = []
    for i, n in enumerate(FIXED):
        L = S.LAYOUTS[n]
        for nm in L['mates']:
            for mate in range(nm):
                P = L['insert'][mate]
                lens = [P + 4, max(P - 1, 0)] if tier == 'quick' else [P + 8, P + 1, max(P - 1, 0), 0]
                for K in sorted(set(lens)):
                    out.append(dict(id='%s_m%d_of%d_len%d' % (n, mate, nm, K), pre=['si == %d' % i, 'mate == %d' % mate, 'nm == %d' % nm, 'len(seq) == %d' % K]))
    return out


_T = {'quick': 60, 'thorough': 300}
LEMMAS = [
    dict(name='L1_layout', fn='_l1_layout', engine='E1', timeout=_T, reach_timeout=20, replay='replay.C02:replay',
         cases={'quick': _cases('quick'), 'thorough': _cases('thorough')}),
    dict(name='L2_content_dependent', fn='_l2_content', engine='E1', timeout={'quick': 120, 'thorough': 300}, replay='replay.C02:replay',
         cases={'quick': [dict(id=n, pre=['si == %d' % i]) for i, n in enumerate(CONTENT)]}),
]

PROPERTY = dict(
    functions=['every strategy class registered in DemultiplexingStrategyLoader: __init__ + demultiplex (%d strategies)' % len(NAMES),
               'baseDemultiplexMethods.UmiBarcodeDemuxMethod / ScatteredUmiBarcodeDemuxMethod / IlluminaBaseDemultiplexer.demultiplex',
               'baseDemultiplexMethods.TaggedRecord.__init__/fromRawFastq/_parse_illumina_header/addTagByTag'],
    bounds={'quick': dict(symbolic='the complete sequence of one mate (arbitrary characters) of length insert_start+4 and insert_start-1; the other mate and all qualities concrete with pairwise distinct characters',
                          strategies='all fixed-layout strategies x every allowed mate count x each mate',
                          content_dependent='TCHIC, CHICTV, DamAndT, DamID2andT_*: 10 x 6 concrete mate pools (bleed-through barcode, poly-A/G/T, oligos, empty / truncated reads) x both barcode verdicts, selected by symbolic indices'),
            'thorough': dict(symbolic='lengths insert_start+8, +1, -1 and 0')},
    outside=['inserts longer than insert_start+8 (slices are length-parametric: argument only)', 'the amount trimmed by content-dependent strategies',
             'symbolic qualities (concrete distinct characters are used; the codec is C04)'],
    assumptions=['StubBarcodeParser accepts every full-length barcode (a truncated one is in no whitelist and is rejected) and returns a corrected barcode that differs from the raw one (C03 owns the real parser)',
                 'spec/layouts.py is the specification (written from the protocol descriptions)'],
    trusted=['spec/layouts.py', 'stubs/stubparser.py'],
)
