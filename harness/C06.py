"""C06 - molecule assignment equals the ground-truth duplicate structure.
Real code: Fragment.__eq__/umi_eq, NlaIIIFragment/CHICFragment.__init__/__eq__/match_hash, Molecule.add_fragment/_add_fragment/write_tags,
NlaIIIMolecule, MoleculeIterator."""
from stubs.fakeread import FakeRead
from spec import c06 as S
from vlib.sym import pick
from singlecellmultiomics.molecule import MoleculeIterator, NlaIIIMolecule, Molecule
from singlecellmultiomics.fragment import NlaIIIFragment, Fragment


UMIS = ['AAA', 'AAT', 'CCC']
SITES = [1000, 1007]


def _l1_nla_pair(sa: int, sb: int, ra: bool, rb: bool, ca: int, cb: int, ia: int, ib: int, ua: str, ub: str, d: int, ka: int, kb: int) -> bool:
    """
    pre: 0 <= sa and 0 <= sb
    pre: 0 <= ca <= 6 and 0 <= cb <= 6
    pre: 0 <= ia <= 1 and 0 <= ib <= 1
    pre: len(ua) <= 3 and len(ub) <= 3
    pre: 0 <= d <= 2
    pre: ca <= 6 and cb <= 6
    pre: 0 <= ka <= 1 and 0 <= kb <= 1
    post: _
    """
    a = S.nla_frag(FakeRead, sa, ra, ca, pick(S.SAMPLES, ia), ua, d, contig=pick(S.CONTIGS, ka))
    b = S.nla_frag(FakeRead, sb, rb, cb, pick(S.SAMPLES, ib), ub, d, contig=pick(S.CONTIGS, kb))
    same = (ia == ib) and (ra == rb) and (sa == sb) and (ka == kb)
    if (a.match_hash == b.match_hash) != same:
        return False
    return S.pair_clause(a, b, same and S.umi_close(ua, ub, d)) is None


def _l2_chic_pair(pa: int, pb: int, ra: bool, rb: bool, ca: int, cb: int, ia: int, ib: int, ui: int, uj: int, d: int, radius: int, ka: int, kb: int) -> bool:
    """
    pre: 0 <= ka <= 1 and 0 <= kb <= 1
    pre: 30 <= pa and 30 <= pb
    pre: 0 <= ca <= 6 and 0 <= cb <= 6
    pre: 0 <= ia <= 1 and 0 <= ib <= 1
    pre: 0 <= ui <= 2 and 0 <= uj <= 2
    pre: 0 <= d <= 1
    pre: 0 <= radius
    post: _
    """
    ua, ub = pick(UMIS, ui), pick(UMIS, uj)
    a = S.chic_frag(FakeRead, pa, ra, ca, pick(S.SAMPLES, ia), ua, d, radius, contig=pick(S.CONTIGS, ka))
    b = S.chic_frag(FakeRead, pb, rb, cb, pick(S.SAMPLES, ib), ub, d, radius, contig=pick(S.CONTIGS, kb))
    k = 2
    site_a = pa - k if not ra else pa + k
    site_b = pb - k if not rb else pb + k
    if radius == 0:
        near = site_a == site_b
    else:
        near = abs(site_a - site_b) <= radius
    same = (ia == ib) and (ra == rb) and near and (ka == kb)
    return S.pair_clause(a, b, same and S.umi_close(ua, ub, d)) is None


def _l2_plain_pair(sa: int, la: int, sb: int, lb: int, ra: bool, rb: bool, ia: int, ib: int, ui: int, uj: int, d: int, radius: int, ka: int, kb: int) -> bool:
    """
    pre: 0 <= ka <= 1 and 0 <= kb <= 1
    pre: 0 <= sa and 0 <= sb and 1 <= la and 1 <= lb
    pre: 0 <= ia <= 1 and 0 <= ib <= 1
    pre: 0 <= ui <= 3 and 0 <= uj <= 3
    pre: 0 <= d <= 1
    pre: 0 <= radius
    post: _
    """
    umis = ['AAA', 'AAT', 'ANA', 'CC']
    ua, ub = pick(umis, ui), pick(umis, uj)
    a = S.plain_frag(FakeRead, sa, la, ra, pick(S.SAMPLES, ia), ua, d, radius, contig=pick(S.CONTIGS, ka))
    b = S.plain_frag(FakeRead, sb, lb, rb, pick(S.SAMPLES, ib), ub, d, radius, contig=pick(S.CONTIGS, kb))
    ds, de = abs(sa - sb), abs((sa + la) - (sb + lb))
    near = (ds if ds < de else de) <= radius
    same = (ia == ib) and (ra == rb) and near and (ka == kb)
    return S.pair_clause(a, b, same and S.umi_close(ua, ub, d)) is None


def _frags(n, keys, d, dups=None):
    out = []
    for i in range(n):
        si, ci, ui, rev = keys[i]
        out.append(S.nla_frag(FakeRead, pick(SITES, si), rev, 0, pick(S.SAMPLES, ci), pick(UMIS, ui), d, name='f%d' % i,
                              dup=(dups[i] if dups else False)))
    return out


def _l3_grouping(n: int, s0: int, s1: int, s2: int, c0: int, c1: int, c2: int, u0: int, u1: int, u2: int, r0: bool, r1: bool, r2: bool,
                 d: int, pooling: int) -> bool:
    """
    pre: 1 <= n <= 3
    pre: 0 <= s0 <= 1 and 0 <= s1 <= 1 and 0 <= s2 <= 1 and 0 <= c0 <= 1 and 0 <= c1 <= 1 and 0 <= c2 <= 1
    pre: 0 <= u0 <= 2 and 0 <= u1 <= 2 and 0 <= u2 <= 2
    pre: 0 <= d <= 1
    pre: 0 <= pooling <= 1
    post: _
    """
    Z = [0, 1, 2]
    keys = [(pick(Z, s0), pick(Z, c0), pick(Z, u0), bool(r0)), (pick(Z, s1), pick(Z, c1), pick(Z, u1), bool(r1)), (pick(Z, s2), pick(Z, c2), pick(Z, u2), bool(r2))][:n]
    frags = _frags(n, keys, d)
    it = MoleculeIterator([[f.reads[0], None] for f in frags], molecule_class=NlaIIIMolecule, fragment_class=NlaIIIFragment,
                          fragment_class_args={'umi_hamming_distance': d}, perform_qflag=False, pooling_method=pooling, check_eject_every=None)
    groups = sorted(sorted(int(fr.reads[0].query_name[1:]) for fr in m) for m in it)
    flat = sorted(i for g in groups for i in g)
    if flat != list(range(n)):
        return False
    for g in groups:
        for i in g:
            for j in g:
                if keys[i][0] != keys[j][0] or keys[i][1] != keys[j][1] or keys[i][3] != keys[j][3]:
                    return False     # one molecule: same site, cell, strand
    if d == 0:
        exp = {}
        for i, k in enumerate(keys):
            exp.setdefault(k, []).append(i)
        return groups == sorted(exp.values())
    # d = 1: every member of a molecule has a UMI within distance 1 of another member (or is alone)
    for g in groups:
        for i in g:
            if len(g) > 1 and not any(i != j and S.umi_close(UMIS[keys[i][2]], UMIS[keys[j][2]], d) for j in g):
                return False
    return True


def _l4_tags(n: int, d0: bool, d1: bool, d2: bool, d3: bool, cap: int) -> bool:
    """
    pre: 1 <= n <= 4
    pre: 0 <= cap <= 4
    post: _
    """
    dups = [d0, d1, d2, d3]
    frags = _frags(n, [(0, 0, 0, False)] * n, 0, dups)
    m = None
    overflow = 0
    for f in frags:
        if m is None:
            m = NlaIIIMolecule(f, max_associated_fragments=(cap if cap > 0 else None))
        else:
            try:
                if not m.add_fragment(f):
                    return False
            except OverflowError:
                overflow += 1
    size = len(m.fragments)
    if cap > 0 and size > cap:
        return False
    for _round in (0, 1):       # writing tags twice must not change anything (re-tagging is idempotent)
        m.write_tags()
        nondup = 0
        for rank, f in enumerate(m):
            r = f.reads[0]
            if not r.is_duplicate:
                nondup += 1
            if r.get_tag('RC') != rank or r.get_tag('af') != size or r.get_tag('TF') != size + overflow:
                return False
        if nondup != 1:
            return False
    return True


def _l5_cap(n: int, u0: int, u1: int, u2: int, u3: int, cap: int, pooling: int) -> bool:
    """
    pre: 2 <= n <= 4
    pre: 0 <= u0 <= 1 and 0 <= u1 <= 1 and 0 <= u2 <= 1 and 0 <= u3 <= 1
    pre: 1 <= cap <= 2
    pre: 0 <= pooling <= 1
    post: _
    """
    # fragments of one cell / site / strand with UMI AAA or CCC (distance 3) arriving in any order, molecules capped at `cap` fragments
    us = [pick([0, 2], u) for u in [u0, u1, u2, u3][:n]]
    frags = _frags(n, [(0, 0, u, False) for u in us], 0)
    it = MoleculeIterator([[f.reads[0], None] for f in frags], molecule_class=NlaIIIMolecule, fragment_class=NlaIIIFragment,
                          fragment_class_args={'umi_hamming_distance': 0}, molecule_class_args={'max_associated_fragments': cap},
                          perform_qflag=False, pooling_method=pooling, check_eject_every=None, yield_overflow=True)
    mols = list(it)
    got = sorted((sorted(int(fr.reads[0].query_name[1:]) for fr in m), len(m.fragments) + m.overflow_fragments) for m in mols)
    exp = []
    for u in (0, 2):
        members = [i for i in range(n) if us[i] == u]
        if not members:
            continue
        kept, over = members[:cap], members[cap:]
        exp.append((kept, len(kept) + len(over)))          # TF of the capped molecule counts its overflow
        for i in over:
            exp.append(([i], 1))                           # every overflow fragment is emitted alone
    return got == sorted(exp)


def _l4b_tags_rejected(n: int, mq: int, thr: int, d0: bool, d1: bool, d2: bool) -> bool:
    """
    pre: 1 <= n <= 3
    pre: 0 <= mq <= 2 and 0 <= thr <= 2
    post: _
    """
    # plain Molecule of n identical fragments whose best MAPQ may be below min_max_mapping_quality (molecule-level rejection):
    # duplicate bits / RC / af / TF are written all the same
    MQ = pick([0, 10, 60], mq)
    TH = pick([None, 20, 50], thr)
    frags = []
    for i in range(n):
        f = S.plain_frag(FakeRead, 100, 10, False, 'lib_1', 'AAA', 0, 0)
        f.reads[0].mapping_quality = MQ
        f.mapping_quality = MQ
        f.reads[0].query_name = 'f%d' % i
        f.reads[0].is_duplicate = [d0, d1, d2][i]
        frags.append(f)
    m = Molecule(min_max_mapping_quality=TH)
    for f in frags:
        m._add_fragment(f)
    for _round in (0, 1):
        m.write_tags()
        nondup = 0
        for rank, f in enumerate(m):
            r = f.reads[0]
            if not r.is_duplicate:
                nondup += 1
            if not r.has_tag('RC') or r.get_tag('RC') != rank or r.get_tag('af') != n or r.get_tag('TF') != n:
                return False
        if nondup != 1:
            return False
    return True


def _l3b_two_contigs(n: int, k0: int, k1: int, k2: int, k3: int, every: int, pooling: int, cls: int) -> bool:
    """
    pre: 2 <= n <= 4
    pre: 0 <= k0 <= k1 <= k2 <= k3 <= 2
    pre: 0 <= every <= 2
    pre: 0 <= pooling <= 1
    pre: 0 <= cls <= 1
    post: _
    """
    # coordinate-sorted reads of ONE cell with ONE UMI at the SAME coordinates of up to three contigs: the molecules are
    # exactly the per-contig classes, for every ejection interval (a molecule never spans two contigs)
    ks = [pick([0, 1, 2], k) for k in [k0, k1, k2, k3][:n]]
    contigs = ['chr1', 'chr2', 'chr3']
    ev = pick([None, 1, 2], every)
    if cls == 0:
        frags = [S.plain_frag(FakeRead, 100, 10, False, 'lib_1', 'AAA', 0, 0, contig=contigs[k]) for k in ks]
        kw = dict(molecule_class=Molecule, fragment_class=Fragment)
    else:
        frags = [S.nla_frag(FakeRead, 100, False, 0, 'lib_1', 'AAA', 0, contig=contigs[k]) for k in ks]
        kw = dict(molecule_class=NlaIIIMolecule, fragment_class=NlaIIIFragment)
    for i, f in enumerate(frags):
        f.reads[0].query_name = 'f%d' % i
    it = MoleculeIterator([[f.reads[0], None] for f in frags], fragment_class_args={'umi_hamming_distance': 0},
                          perform_qflag=False, pooling_method=pooling, check_eject_every=ev, **kw)
    got = sorted(sorted(int(fr.reads[0].query_name[1:]) for fr in m) for m in it)
    exp = {}
    for i, k in enumerate(ks):
        exp.setdefault(k, []).append(i)
    return got == sorted(exp.values())



def preflight():
    """FakeRead against real pysam records of the repository's test BAM files, accessor by accessor"""
    from stubs.validate import validate_fakeread
    return validate_fakeread(300)

_T = {'quick': 240, 'thorough': 1200}
LEMMAS = [
    dict(name='L1_nla_pairwise', fn='_l1_nla_pair', engine='E1', timeout=_T, replay='replay.C06:replay',
         cases={'quick': [dict(id='d%d_%s' % (d, 'samestrand' if e else 'opp'), pre=['d == %d' % d, ('ra == rb' if e else 'ra != rb'), 'len(ua) <= 2', 'len(ub) <= 2', 'ca <= 2', 'cb <= 2', 'ka == 0']) for d in (0, 1, 2) for e in (1, 0)],
                'thorough': [dict(id='d%d_%s_la%d' % (d, 'samestrand' if e else 'opp', la), pre=['d == %d' % d, ('ra == rb' if e else 'ra != rb'), 'len(ua) == %d' % la]) for d in (0, 1, 2) for e in (1, 0) for la in (0, 1, 2, 3)]}),
    dict(name='L2_chic_pairwise', fn='_l2_chic_pair', engine='E1', timeout=_T, replay='replay.C06:replay',
         cases={'quick': [dict(id='r%s_d%d_%s' % ('0' if z else 'pos', d, 'fwd' if f else 'rev'), pre=[('radius == 0' if z else 'radius >= 1'), 'd == %d' % d, 'ra == rb', 'ra == %s' % (not f), 'ca <= 2', 'cb <= 2', 'ka == 0', 'kb == 0']) for z in (1, 0) for d in (0, 1) for f in (1, 0)] +
                         [dict(id='other_contig_r%s_d%d' % ('0' if z else 'pos', d), pre=[('radius == 0' if z else 'radius >= 1'), 'd == %d' % d, 'ka == 0', 'kb == 1', 'ra == rb', 'ca <= 1', 'cb == 0']) for z in (1, 0) for d in (0, 1)]}),
    dict(name='L2_plain_pairwise', fn='_l2_plain_pair', engine='E1', timeout=_T, replay='replay.C06:replay',
         cases={'quick': [dict(id='d%d' % d, pre=['d == %d' % d]) for d in (0, 1)]}),
    dict(name='L3_grouping', fn='_l3_grouping', engine='E1', timeout=_T, replay='replay.C06:replay',
         cases={'quick': [dict(id='n%d_d%d_p%d' % (n, d, p), pre=['n == %d' % n, 'd == %d' % d, 'pooling == %d' % p] + (['s2 == 0', 'c2 == 0', 'u2 == 0', 'r2 == False'] if n < 3 else []) + (['s1 == 0', 'c1 == 0', 'u1 == 0', 'r1 == False'] if n < 2 else []))
                          for n in (1, 2) for d in (0, 1) for p in (0, 1)] +
                         [dict(id='n3_d%d_p%d_s%d_u%d' % (d, p, s, u), pre=['n == 3', 'd == %d' % d, 'pooling == %d' % p, 's0 == %d' % s, 'u0 == %d' % u, 'r0 == False', 'r1 == False', 'r2 == False', 'c0 == 0', 'c1 == 0', 'c2 <= 1']) for d in (0, 1) for p in (0, 1) for s in (0, 1) for u in (0, 1, 2)],
                'thorough': [dict(id='n3_d%d_p%d_s%d_c%d_r%d' % (d, p, s, c, r), pre=['n == 3', 'd == %d' % d, 'pooling == %d' % p, 's0 == %d' % s, 'c0 == %d' % c, 'r0 == %s' % bool(r)]) for d in (0, 1) for p in (0, 1) for s in (0, 1) for c in (0, 1) for r in (0, 1)]}),
    dict(name='L3b_grouping_across_contigs', fn='_l3b_two_contigs', engine='E1', timeout=_T, replay='replay.C06:replay',
         cases={'quick': [dict(id='plain', pre=['cls == 0']), dict(id='nla', pre=['cls == 1'])]}),
    dict(name='L4b_tags_of_rejected_molecule', fn='_l4b_tags_rejected', engine='E1', timeout=_T, replay='replay.C06:replay'),
    dict(name='L5_fragment_cap', fn='_l5_cap', engine='E1', timeout=_T, replay='replay.C06:replay',
         cases={'quick': [dict(id='cap%d_p%d' % (c, p), pre=['cap == %d' % c, 'pooling == %d' % p]) for c in (1, 2) for p in (0, 1)]}),
    dict(name='L4_duplicate_rank_tags', fn='_l4_tags', engine='E1', timeout=_T, replay='replay.C06:replay'),
]

PROPERTY = dict(
    functions=['fragment.Fragment.__init__/__eq__/umi_eq', 'fragment.NlaIIIFragment.__init__/__eq__ (match_hash)', 'fragment.CHICFragment.__init__/__eq__',
               'molecule.Molecule.__init__/add_fragment/_add_fragment/write_tags', 'molecule.NlaIIIMolecule._add_fragment/write_tags', 'molecule.iterator.MoleculeIterator'],
    bounds=dict(pairwise='two fragments on the same or on different contigs: UNBOUNDED site coordinates, clips 0..6, both strands, 2 cells, arbitrary UMIs of length <= 2 with clips 0..2 (thorough: <= 3, clips 0..6) (CHIC: pool of 3 UMIs; plain: pool of 4 incl. N and unequal length), hamming 0..2, radius 0 and unbounded',
                grouping='<=3 NLA fragments with site / cell / UMI / strand from pools (2 sites, 2 cells, 3 UMIs at distance 1 or 3), hamming 0/1, both pooling methods',
                across_contigs='2..4 sorted reads of one cell / UMI / coordinates on up to 3 contigs, ejection interval none/1/2, both pooling methods, plain Fragment+Molecule and NlaIII classes', cap='2..4 fragments of two UMIs at one site in any arrival order, cap 1..2, both pooling methods', tags='molecule of 1..4 fragments with arbitrary initial duplicate flags, max-fragments cap 1..4 or none, write_tags twice'),
    outside=['sequencing-error / soft-clip realism of a simulator (the solver ranges over all geometries instead)', 'allele-split molecules', 'paired-end R2 ends (single R1 fragments are used)',
             'transitivity chains longer than 3 fragments', 'ScarTraceFragment / FeatureCounts fragments (own __eq__)', 'plain Fragment equality being start-OR-end based (documented in its doctest)', 'site drift of CHICMolecule with assignment_radius > 0'],
    assumptions=['UMI distance is the package\'s documented one (N matches anything; sequtils.hamming_distance)', 'FakeRead models pysam.AlignedSegment',
                 'CHIC site offset 2 for trimmed layouts (C09)'],
    trusted=['stubs/fakeread.py', 'spec/c06.py', 'spec/c09.py read geometry'],
)
