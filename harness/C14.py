"""C14 - TAPS methylation calls reflect reference context and observed conversion.
Real code: taps.TAPS.position_to_context, taps.TAPSMolecule.obtain_methylation_calls, molecule.Molecule.set_methylation_call_tags / get_consensus."""
from stubs.fakeread import FakeRead
from stubs.fakefasta import FakeFasta
from spec import c14 as S
from vlib.sym import pick
from singlecellmultiomics.molecule.taps import TAPS, TAPSMolecule
from singlecellmultiomics.fragment import Fragment

TAPS_OBJ = TAPS()
B = S.B5


def preflight():
    import pysam, os
    fa = '/repo/data/chic_ref.fa'
    out = {}
    cands = [p for p in ('/repo/data/chic_ref.fa', '/repo/data/ref.fa', '/repo/data/mini_nla_ref.fa') if os.path.exists(p) and os.path.exists(p + '.fai')]
    if cands:
        f = pysam.FastaFile(cands[0])
        c = f.references[0]
        L = f.get_reference_length(c)
        seq = f.fetch(c)
        ff = FakeFasta({c: seq})
        for (s, e) in [(0, 3), (L - 2, L + 5), (L, L + 3), (5, 5), (L - 1, L)]:
            assert f.fetch(c, s, e) == ff.fetch(c, s, e), (s, e)
        for (s, e) in [(-1, 2), (5, 3)]:
            for h in (f, ff):
                try:
                    h.fetch(c, s, e)
                    raise AssertionError('no error for %r' % ((s, e),))
                except ValueError:
                    pass
        out['fakefasta_vs_pysam'] = 'fetch semantics identical incl. truncation and ValueError (%s)' % cands[0]
    else:
        out['fakefasta_vs_pysam'] = 'no indexed fasta in /repo/data: contract not validated this run'
    from stubs.validate import validate_fakeread
    out_ = out
    out_.update(validate_fakeread(300))
    return out_


def _l1_context(w0: int, w1: int, w2: int, pos: int, g: bool, obs: int, pad: int, lc: int) -> bool:
    """
    pre: 0 <= w0 <= 4 and 0 <= w1 <= 4 and 0 <= w2 <= 4
    pre: 0 <= pos <= 2
    pre: 0 <= obs <= 4
    pre: 0 <= pad <= 1
    pre: 0 <= lc <= 7
    post: _
    """
    # contig = [pad * 'AT'] + 3 symbolic letters + [pad * 'AT']: without padding every truncation at both contig ends occurs.
    # lc: which of the three letters are soft-masked (lower case) in the reference file; the context is case-insensitive
    core = pick(B, w0) + pick(B, w1) + pick(B, w2)
    mask = pick(list(range(8)), lc)
    core_file = ''.join((ch.lower() if (mask >> i) & 1 else ch) for i, ch in enumerate(core))
    ref = ('AT' if pad else '') + core + ('AT' if pad else '')
    ref_file = ('AT' if pad else '') + core_file + ('at' if pad else '')
    p = pos + (2 if pad else 0)
    ref_base = 'G' if g else 'C'
    if ref[p] != ref_base:
        return True
    observed = pick(B, obs)
    ctx, sym = TAPS_OBJ.position_to_context('chr1', p, ref_base, observed_base=observed, strand=g, reference=FakeFasta({'chr1': ref_file}))
    return sym == S.letter(ref, p, ref_base, observed)


def _l4_two_contigs(a0: int, a1: int, a2: int, b0: int, b1: int, b2: int, g: bool, first: int) -> bool:
    """
    pre: 0 <= a0 <= 4 and 0 <= a1 <= 2 and 0 <= a2 <= 4 and 0 <= b0 <= 4 and 0 <= b1 <= 2 and 0 <= b2 <= 4
    pre: 0 <= first <= 1
    post: _
    """
    # ONE calling object (as the tagger uses it) asked about the same coordinate on two contigs with different sequence, in either order
    taps = TAPS()
    refs = {'chrA': 'AT' + pick(B, a0) + pick(B, a1) + pick(B, a2) + 'AT', 'chrB': 'AT' + pick(B, b0) + pick(B, b1) + pick(B, b2) + 'AT'}
    fa = FakeFasta(refs)
    ref_base = 'G' if g else 'C'
    p = 4 if g else 2
    order = ['chrA', 'chrB'] if first == 0 else ['chrB', 'chrA']
    conv = 'A' if g else 'T'
    for rounds in (0, 1):
        for c in order:
            if refs[c][p] != ref_base:
                continue
            ctx, sym = taps.position_to_context(c, p, ref_base, observed_base=conv, strand=g, reference=fa)
            if sym != S.letter(refs[c], p, ref_base, conv):
                return False
    return True


def _build(ref, start, n, rev, conv_mask, name, paired=None, conv_g=None):
    """read over ref[start:start+n); C (or G on the reverse strand) at offset i is shown converted iff bit i of conv_mask"""
    if conv_g is None:
        conv_g = rev              # taps_strand 'F': the reverse-strand molecule shows G>A
    exp = 'G' if conv_g else 'C'
    to = 'A' if conv_g else 'T'
    seq = ''
    for i in range(n):
        b = ref[start + i]
        seq += to if (b == exp and (conv_mask >> i) & 1) else b
    r = FakeRead(query_name=name, reference_name='chr1', reference_start=start, cigartuples=[(0, n)], seq=seq, qual='I' * n, is_reverse=rev,
                 is_read1=True, is_read2=False, tags={'SM': 'lib_1', 'RX': 'ACG'})
    r.reference_bases = {start + i: ref[start + i] for i in range(n)}
    return r


def _l2_calls(w0: int, w1: int, w2: int, w3: int, rev: bool, mask: int, two: bool, mask2: int, tr: bool) -> bool:
    """
    pre: 0 <= w0 <= 3 and 0 <= w1 <= 3 and 0 <= w2 <= 3 and 0 <= w3 <= 4
    pre: 0 <= mask <= 15 and 0 <= mask2 <= 15
    post: _
    """
    A = 'ACGT'
    ref = pick(A, w0) + pick(A, w1) + pick(A, w2) + pick(B, w3)
    fa = FakeFasta({'chr1': ref})
    conv_g = (rev != tr)       # taps_strand 'R' (tr) swaps which strand shows which conversion
    reads = [_build(ref, 0, 4, rev, mask, 'a', conv_g=conv_g)]
    if two:
        reads.append(_build(ref, 0, 4, rev, mask2, 'b', conv_g=conv_g))
    m = TAPSMolecule(fragments=None, taps=TAPS_OBJ, taps_strand=('R' if tr else 'F'), allow_unsafe_base_calls=True, reference=fa)
    for r in reads:
        m._add_fragment(Fragment([r, None], umi_hamming_distance=0))
    calls = m.obtain_methylation_calls()
    exp_base = 'G' if conv_g else 'C'
    # oracle: per position the strict-majority base over the reads, then the context letter
    want = {}
    for i in range(4):
        if ref[i] != exp_base:
            continue
        obs = [r.query_sequence[i] for r in reads]
        if len(set(obs)) != 1:
            continue               # tie between two fragments: no consensus, no call
        want[('chr1', i)] = S.letter(ref, i, exp_base, obs[0])
    got = {k: v['context'] for k, v in calls.items()}
    if got != want:
        return False
    for r in reads:
        xm = r.get_tag('XM')
        if len(xm) != 4:
            return False
        for i in range(4):
            if xm[i] != want.get(('chr1', i), '.'):
                return False
        cnt = {}
        for v in want.values():
            cnt[v] = cnt.get(v, 0) + 1
        if r.get_tag('MC') != cnt.get('Z', 0) + cnt.get('X', 0) + cnt.get('H', 0):
            return False
        if r.get_tag('uC') != cnt.get('z', 0) + cnt.get('x', 0) + cnt.get('h', 0):
            return False
        for tag, let in (('sZ', 'Z'), ('sz', 'z'), ('sX', 'X'), ('sx', 'x'), ('sH', 'H'), ('sh', 'h')):
            if r.get_tag(tag) != cnt.get(let, 0):
                return False
    return True


def _l3_dove(off: int, c_in: bool, c_out: bool, conv_in: bool, conv_out: bool, unsafe: bool) -> bool:
    """
    pre: 0 <= off <= 2
    post: _
    """
    # forward R1 covers [2, 8); reverse R2 covers [0, 6): R1 runs 2 bases past R2's end (dove tail). Position 6/7 are outside the mate-overlap-safe span.
    ref = list('AAATAAATAA')
    pin, pout = 3 + off % 2, 6 + off // 2       # one candidate C inside the safe span, one outside
    if c_in:
        ref[pin] = 'C'
    if c_out:
        ref[pout] = 'C'
    ref = ''.join(ref)
    fa = FakeFasta({'chr1': ref})
    s1 = ''.join(('T' if ((i == pin and c_in and conv_in) or (i == pout and c_out and conv_out)) else ref[i]) for i in range(2, 8))
    s2 = ''.join(('T' if (i == pin and c_in and conv_in) else ref[i]) for i in range(0, 6))
    r1 = FakeRead(query_name='q', reference_name='chr1', reference_start=2, cigartuples=[(0, 6)], seq=s1, qual='I' * 6, is_reverse=False, is_read1=True,
                  is_read2=False, is_paired=True, tags={'SM': 'lib_1', 'RX': 'ACG'})
    r2 = FakeRead(query_name='q', reference_name='chr1', reference_start=0, cigartuples=[(0, 6)], seq=s2, qual='I' * 6, is_reverse=True, is_read1=False,
                  is_read2=True, is_paired=True, tags={'SM': 'lib_1', 'RX': 'ACG'})
    r1.reference_bases = {i: ref[i] for i in range(2, 8)}
    r2.reference_bases = {i: ref[i] for i in range(0, 6)}
    m = TAPSMolecule(fragments=None, taps=TAPS_OBJ, taps_strand='F', allow_unsafe_base_calls=unsafe, reference=fa)
    m._add_fragment(Fragment([r1, r2], umi_hamming_distance=0))
    calls = m.obtain_methylation_calls()
    keys = set(calls)
    want = set()
    if c_in:
        want.add(('chr1', pin))
    if c_out and unsafe:
        want.add(('chr1', pout))
    return keys == want


_T = {'quick': 200, 'thorough': 900}
LEMMAS = [
    dict(name='L1_context_letter', fn='_l1_context', engine='E1', timeout=_T, replay='replay.C14:replay',
         cases={'quick': [dict(id='pos%d_%s_pad%d_lc%d' % (p, 'G' if g else 'C', pad, h), pre=['pos == %d' % p, 'g == %s' % bool(g), 'pad == %d' % pad, ('lc <= 3' if h == 0 else 'lc >= 4')]) for p in (0, 1, 2) for g in (0, 1) for pad in (0, 1) for h in (0, 1)]}),
    dict(name='L2_calls_and_tags', fn='_l2_calls', engine='E1', timeout=_T, replay='replay.C14:replay',
         cases={'quick': [dict(id='w%d_%s_%s' % (w, 'rev' if r else 'fwd', 'two' if t else 'one'), pre=['w0 == %d' % w, 'rev == %s' % bool(r), 'two == %s' % bool(t), 'tr == False'] + ([] if t else ['mask2 == 0']))
                          for w in range(4) for r in (0, 1) for t in (0,)] +
                         [dict(id='tapsR_w%d_%s_one' % (w, 'rev' if r else 'fwd'), pre=['w0 == %d' % w, 'rev == %s' % bool(r), 'two == False', 'tr == True', 'mask2 == 0']) for w in (1, 2) for r in (0, 1)] +
                         [dict(id='two_w%d_%s' % (w, 'rev' if r else 'fwd'), pre=['w0 == %d' % w, 'rev == %s' % bool(r), 'two == True', 'tr == False', 'w3 <= 1', 'mask <= 7', 'mask2 <= 7']) for w in (1, 2) for r in (0, 1)]}),
    dict(name='L4_shared_caller_two_contigs', fn='_l4_two_contigs', engine='E1', timeout=_T, replay='replay.C14:replay',
         cases={'quick': [dict(id='%s_a%d' % ('G' if g else 'C', a), pre=['g == %s' % bool(g), ('a2 == %d' % a if g else 'a0 == %d' % a), ('b2 == 2' if g else 'b0 == 1')]) for g in (0, 1) for a in ((2,) if g else (1,))]}),
    dict(name='L3_dove_safe_span', fn='_l3_dove', engine='E1', timeout=_T, replay='replay.C14:replay'),
]

PROPERTY = dict(
    functions=['taps.TAPS.position_to_context', 'taps.TAPSMolecule.__init__/obtain_methylation_calls', 'molecule.Molecule.set_methylation_call_tags / get_consensus',
               'sequtils.get_consensus_dictionaries (dove-safe window)'],
    bounds=dict(context='contigs of 3 (every truncation at both ends) and 7 letters with a 3-letter window over ACGTN, reference base C and G, every observed base',
                calls='4-letter contig over ACGT (+N at the end), one read (all 16 conversion patterns) or two reads (8x8 patterns), both strands, taps_strand F (all cases) and R (one read, contigs starting with C or G), tags XM / MC / uC / sZ sz sX sx sH sh',
                dove='one dove-tailed pair, candidate C inside / outside the mate-overlap-safe span, allow_unsafe_base_calls on/off'),
    outside=['classifier-based consensus', 'reference variants', 'colour tag YC'],
    assumptions=['reference letters may be soft-masked (lower case) in the FASTA; the context is case-insensitive', 'FakeFasta fetch contract (validated against pysam.FastaFile at preflight)', 'FakeRead.get_aligned_pairs(with_seq=True) returns the reference base (MD semantics)',
                 'a context whose first two bases are CG is a CpG context even when the third base is missing (contig end) or N'],
    trusted=['stubs/fakefasta.py', 'stubs/fakeread.py', 'spec/c14.py'],
)
