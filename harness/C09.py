"""C09 - cut-site coordinates are correct and strand-symmetric.
Real code executed symbolically: NlaIIIFragment.__init__/identify_site/set_site/is_valid,
CHICFragment.__init__/identify_site/set_site/is_valid, Fragment.__init__ (from /repo)."""
from stubs.fakeread import FakeRead
from spec import c09 as S
from vlib.sym import pick
S_ = S


def _l1_nla(X: int, c: int, rev: bool, motif: str, inv: bool, chk: bool, nocig: bool) -> bool:
    """
    pre: 0 <= X
    pre: 0 <= c <= 6
    pre: len(motif) == 4
    pre: (not nocig) or c == 0
    post: _
    """
    return S.check_nla(FakeRead, X, c, rev, motif, inv, chk, nocig) is None


def _l1_nla_paired(X: int, c: int, rev: bool, motif: str) -> bool:
    """
    pre: 40 <= X
    pre: 0 <= c <= 6
    pre: len(motif) == 4
    post: _
    """
    return S.check_nla(FakeRead, X, c, rev, motif, False, True, False, with_r2=True) is None


def _l2_shift(X: int, c: int, rev: bool, allow: bool, first: int) -> bool:
    """
    pre: 0 <= X
    pre: 0 <= c <= 6
    pre: 0 <= first <= 3
    post: _
    """
    return S.check_nla_shift(FakeRead, X, c, rev, allow, first) is None


def _l2_shift_reject(X: int, rev: bool, tail: str) -> bool:
    """
    pre: 0 <= X
    pre: len(tail) == 4
    post: _
    """
    return S.check_nla_shift_reject(FakeRead, X, rev, tail) is None


def _l3_chic(P: int, c: int, rev: bool, trimmed: bool, inv: bool, Lam: int) -> bool:
    """
    pre: 0 <= c <= 6
    pre: 20 <= P
    pre: P + 20 <= Lam
    post: _
    """
    return S.check_chic(FakeRead, P, c, rev, trimmed, inv, Lam) is None


def _l3_chic_orientation(P: int, rev: bool, r2rev: bool, r2unmapped: bool) -> bool:
    """
    pre: 0 <= P
    post: _
    """
    return S.check_chic_orientation(FakeRead, P, rev, r2rev, r2unmapped) is None


def _l4_nla_mirror(X: int, c: int, rev: bool, Lam: int) -> bool:
    """
    pre: 0 <= c <= 6
    pre: 20 <= X
    pre: X + 24 <= Lam
    post: _
    """
    return S.check_nla_mirror(FakeRead, X, c, rev, Lam) is None


def _SymWindowFasta(base, window):
    return S_.WindowFasta(base, window, identity_upper=True)


def _l5_no_overhang(S: int, rev: bool, window: str) -> bool:
    """
    pre: 0 <= S
    pre: rev == False or 12 <= S
    pre: len(window) == 7
    post: _
    """
    return S_.check_nla_no_overhang(FakeRead, _SymWindowFasta, S, rev, window, case_free=True) is None


def _l5b_no_overhang_softmasked(S: int, rev: bool, j: int, mask: int) -> bool:
    """
    pre: 12 <= S
    pre: 0 <= j <= 3
    pre: 0 <= mask <= 15
    post: _
    """
    # the reference CATG next to the read lies in a soft-masked (lower-case) stretch: letters of the motif lower-cased per mask
    jj = pick([0, 1, 2, 3], j)
    mm = pick(list(range(16)), mask)
    motif = ''.join((ch.lower() if (mm >> i) & 1 else ch) for i, ch in enumerate('CATG'))
    window = 'A' * jj + motif + 'A' * (3 - jj)
    return S_.check_nla_no_overhang(FakeRead, S_.WindowFasta, S, rev, window) is None



def preflight():
    """FakeRead against real pysam records of the repository's test BAM files, accessor by accessor"""
    from stubs.validate import validate_fakeread
    return validate_fakeread(300)

_T = {'quick': 60, 'thorough': 300}
LEMMAS = [
    dict(name='L1_nla_site', fn='_l1_nla', engine='E1', timeout=_T, replay='replay.C09:replay',
         cases={'quick': [dict(id='fwd', pre=['rev == False']), dict(id='rev', pre=['rev == True'])]}),
    dict(name='L1_nla_site_paired', fn='_l1_nla_paired', engine='E1', timeout=_T, replay='replay.C09:replay'),
    dict(name='L2_cycle_shift', fn='_l2_shift', engine='E1', timeout=_T, replay='replay.C09:replay'),
    dict(name='L2_cycle_shift_reject', fn='_l2_shift_reject', engine='E1', timeout=_T, replay='replay.C09:replay',
         cases={'quick': [dict(id='fwd', pre=['rev == False']), dict(id='rev', pre=['rev == True'])]}),
    dict(name='L3_chic_site_mirror', fn='_l3_chic', engine='E1', timeout=_T, replay='replay.C09:replay'),
    dict(name='L3_chic_orientation', fn='_l3_chic_orientation', engine='E1', timeout=_T, replay='replay.C09:replay'),
    dict(name='L4_nla_mirror', fn='_l4_nla_mirror', engine='E1', timeout=_T, replay='replay.C09:replay'),
    dict(name='L5b_no_overhang_softmasked', fn='_l5b_no_overhang_softmasked', engine='E1', timeout=_T, replay='replay.C09:replay'),
    dict(name='L5_no_overhang', fn='_l5_no_overhang', engine='E1', timeout=_T, replay='replay.C09:replay',
         cases={'quick': [dict(id='fwd', pre=['rev == False']), dict(id='rev', pre=['rev == True'])]}),
]

PROPERTY = dict(
    functions=['singlecellmultiomics.fragment.nlaIII.NlaIIIFragment.__init__/identify_site (motif, cycle-shift and no_overhang branches)/set_site/is_valid',
               'singlecellmultiomics.fragment.chic.CHICFragment.__init__/identify_site/set_site/is_valid',
               'singlecellmultiomics.fragment.fragment.Fragment.__init__/set_meta/set_rejection_reason/update_span'],
    bounds=dict(coordinates='unbounded non-negative integers (X, P, Lam symbolic z3 Int)', clip='0..6 soft-clipped bases',
                motif='arbitrary 4-character string (all unicode code points)', read='16 nt (4 motif + 12 concrete insert)',
                flags='invert_strand, check_motif, no_umi_cigar_processing, allow_cycle_shift symbolic'),
    outside=['no_overhang=True with soft-clipped reads or a reference window other than 7 bases (cut_location_offset != -4)', 'reads with indels inside the first 4 bases',
             'paired-end variants use one fixed R2 geometry', 'real pysam record storage (replay only)', 'the strategy names TCHIC / CTV, whose reads are trimmed like scCHIC384C8U3 but are treated as untrimmed by CHICFragment (one of the two offsets is wrong; the source does not say which)'],
    assumptions=['FakeRead models pysam.AlignedSegment accessors (validated in preflight against real pysam records of the test BAM files, accessor by accessor: stubs/validate.py)',
                 'ground truth geometry: recognised CATG occupies reference [X,X+4); forward read aligned start = X+clip; '
                 'reverse read aligned end = X+4-clip',
                 'CHIC site offsets (2 for trimmed scCHIC layouts, 1 for untrimmed) are protocol constants of the spec',
                 'with no_umi_cigar_processing the clip is assumed 0 (the option documents that clips are ignored)',
                 'no_overhang L5: symbolic window restricted (claim) to strings without lower-case characters, for which str.upper() is the identity as modelled; L5b: CATG with every subset of its letters lower-cased at every offset of the window', 'no_overhang: reference modelled by spec.c09.WindowFasta (7 symbolic letters next to the read, pysam fetch contract: negative start raises); ground truth = CATG occurrence nearest to the read inside the 7-base window, bases before the contig start do not exist'],
    trusted=['stubs/fakeread.py', 'spec/c09.py oracle'],
)
